"""Fresh-interpreter worker for C10: parser-construction histories.  In a new process, for each logic, a parser
that targets ANOTHER language's classes (Parser(language=...)) is built and used first, then plain parsers;
every plain parser must return formulas of its own logic.  usage: c10_worker.py <cases.json> <out.json>"""
import json
from common import exc_name
import os
import sys

HERE = os.path.dirname(os.path.abspath(__file__))
sys.path.insert(0, HERE)
import pymc                      # noqa: E402
import synfam                    # noqa: E402
from pymc import LANGS           # noqa: E402


def main():
    cases = json.load(open(sys.argv[1]))
    out = []
    primed = {}
    for c in cases:
        lang, prime = c['lang'], c['prime']
        if (lang, prime) not in primed:
            primed[(lang, prime)] = LANGS[lang].Parser(language=LANGS[prime])
            primed[(lang, prime)]('p')
        text = synfam.untokenise(c['toks'])
        ev = dict(c)
        ev['len'] = len(text)
        ev['text'] = text

        def run():
            try:
                return synfam.describe(LANGS[lang].Parser()(text))
            except pymc.parsermod.ParserError as ex:
                return {'exc': exc_name(ex), 'pos': int(ex.pos) if isinstance(ex.pos, int) else -1}
        ev['out'] = synfam.guarded(run)
        if 'exc' in ev['out'] and 'pos' not in ev['out']:
            ev['out']['pos'] = -1
        out.append(ev)
    json.dump(out, open(sys.argv[2], 'w'))


if __name__ == '__main__':
    main()
