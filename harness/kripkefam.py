"""Kripke call histories (C14): step abstract behaviours through real Kripke objects and record
one event per call with the outcome and the full projection (states, S0, transitions, labels,
identities of the label sets) of every pooled object.  TraceKripke.tla judges the events."""
import random
from common import exc_name

import pymc
from pymc import NAMINGS


def project(k, idx, lid_of):
    try:
        states = list(k.states())
        S = sorted(idx[s] for s in states)
        L = []
        lids = []
        lf = k.labelling_function()
        sset = set(states)
        for s in sorted(lf, key=lambda x: idx[x]):
            # every key of the labelling function (after the inherited mutators a state may have no entry; after
            # replace_labelling_function there may be keys that are not states)
            lab = k.labels(s) if s in sset else lf[s]
            L.append([idx[s], sorted(str(a) for a in lab)])
            lids.append(lid_of(lab))
        return {'S': S, 'S0': sorted(idx[s] for s in k.S0), 'R': sorted([idx[a], idx[b]] for a, b in k.transitions()),
                'L': L, 'lids': lids}
    except Exception as ex:
        return {'S': [-1], 'S0': [], 'R': [], 'L': [], 'lids': [], 'error': type(ex).__name__ + ':' + str(ex)[:80]}


def run_behaviour(b):
    name = NAMINGS[b.get('naming', 'int')]
    rng = random.Random(b.get('shuf', 0))
    idx = {name(i): i for i in range(32)}
    pool = {}
    keep = []                 # keeps label sets alive so that id() stays unique within the trace
    lidmap = {}

    def lid_of(obj):
        if id(obj) not in lidmap:
            lidmap[id(obj)] = len(lidmap) + 1
            keep.append(obj)
        return lidmap[id(obj)]

    events = []
    for c in b['calls']:
        op = c['op']
        if op != 'new' and c.get('g') not in pool:
            continue          # receiver never came into existence (its constructor raised): nothing to call
        ev = dict(c)
        ev.update({'trace': b['trace'], 'i': len(events)})
        try:
            if op == 'new':
                S = [name(v) for v in c['S']]
                S0 = [name(v) for v in c['S0']]
                R = [(name(a), name(b_)) for a, b_ in c['R']]
                style = b.get('lstyle', 'set')
                items = [(name(s), (set(v) if style == 'set' else list(v) if style == 'list' else frozenset(v))) for s, v in c['Lkv']]
                if b.get('shuf') is not None:
                    for x in (S, S0, R, items):
                        rng.shuffle(x)
                    S, S0, R = pymc.as_container(S, rng), pymc.as_container(S0, rng), pymc.as_container(R, rng, pairs=True)
                L = dict(items)
                sub = b.get('shuf') is not None and rng.random() < 0.15      # an instance of a user subclass with its own constructor signature
                if b.get('args', 'full') == 'none-if-empty':
                    k = pymc.new_kripke(S or None, S0 or None, R or None, L or None, sub=sub)
                else:
                    k = pymc.new_kripke(S, S0, R, L, sub=sub)
                pool[c['new']] = k
                out = {'ret': 'none'}
            elif op == 'drop':
                del pool[c['g']]
                out = {'ret': 'none'}
            else:
                k = pool[c['g']]
                if op == 'clone':
                    pool[c['new']] = k.clone()
                    out = {'ret': 'none'}
                elif op == 'sub':
                    pool[c['new']] = k.get_substructure((frozenset if b.get('shuf') is not None and rng.random() < 0.3 else set)(name(v) for v in c['X']))   # documented type: set
                    out = {'ret': 'none'}
                elif op == 'add_node':
                    k.add_node(name(c['v']))
                    out = {'ret': 'none'}
                elif op == 'add_edge':
                    k.add_edge(name(c['s']), name(c['d']))
                    out = {'ret': 'none'}
                elif op == 'label_add':
                    k.labels(name(c['v'])).add(c['a'])
                    out = {'ret': 'none'}
                elif op == 'relabel':
                    newL = {name(s_): set(v) for s_, v in c['Lkv']}
                    oldL = k.replace_labelling_function(newL)
                    out = {'ret': sorted([idx[s_], sorted(str(a) for a in v)] for s_, v in oldL.items())}
                elif op == 'labels':
                    out = {'ret': sorted(str(a) for a in k.labels(name(c['v'])))}
                elif op == 'next':
                    out = {'ret': sorted(idx[v] for v in k.next(name(c['v'])))}
                elif op == 'states':
                    out = {'ret': sorted(idx[v] for v in k.states())}
                elif op == 'transitions':
                    out = {'ret': sorted([idx[a], idx[b_]] for a, b_ in k.transitions())}
                elif op == 'alllabels':
                    out = {'ret': sorted(str(a) for a in k.labels())}
                else:
                    raise ValueError(op)
        except (KeyboardInterrupt, SystemExit, MemoryError):
            raise
        except BaseException as ex:
            out = {'exc': exc_name(ex), 'msg': str(ex)[:100]}
        ev['out'] = out
        ev['pool'] = {str(g): project(k, idx, lid_of) for g, k in pool.items()}
        events.append(ev)
    return events
