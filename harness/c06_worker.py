"""Fresh-interpreter worker for C06: runs every case of a case file under this process's
PYTHONHASHSEED and writes the projected outcomes.  usage: c06_worker.py <cases.json> <out.json>"""
import json
import os
import sys

HERE = os.path.dirname(os.path.abspath(__file__))
sys.path.insert(0, HERE)
import mcfam            # noqa: E402
from pymc import T      # noqa: E402


def main():
    cases = json.load(open(sys.argv[1]))
    outs = []
    for c in cases:
        c['f'] = T(c['f'])
        ev = mcfam.mc_event(c)
        outs.append(ev['out'])
    json.dump({'seed': os.environ.get('PYTHONHASHSEED'), 'outs': outs}, open(sys.argv[2], 'w'))


if __name__ == '__main__':
    main()
