"""C17 - OBDD operations compute the right function, reduced and ordered."""
import itertools
import json

import bddfam
from bddfam import rand_expr, all_exprs


def run(ctx):
    q = ctx.quick()
    rnd = ctx.rng
    ctx.rule = ('cases = OBDD operations on operands built from expressions: f&g, f|g, f^g, ~f, f.restrict(v,b) for pairs from a catalogue '
                'covering all 256 functions of 3 variables (by truth table) and sampled 4-variable expressions, under all orderings of '
                'the variables; the result structure must be THE reduced ordered diagram of the specified function (Robdd, model-checked '
                'for all 3-variable functions and orderings) and variables() its support; mismatched orderings must raise RuntimeError; '
                'distinct_nontrivial = distinct (ordering, operation, operand functions) whose result is not a constant')
    ctx.model('MC_Bool.tla', 'Bool_mc.cfg', timeout=1500)
    ctx.model('MC_BDD.tla', 'BDD_q.cfg', timeout=3000)           # OpCorrect / Reduced / Ordered at design level
    cases = []
    V3 = ['a', 'b', 'c']
    # a catalogue with one expression per 3-variable function: built by disjunctive normal form
    cat3 = []
    for mask in range(256):
        terms = []
        for i in range(8):
            if mask >> i & 1:
                lits = [('var', v) if i >> k & 1 else ('not', ('var', v)) for k, v in enumerate(V3)]
                terms.append(('and', lits[0], ('and', lits[1], lits[2])))
        e = ('const', 0)
        for t in terms:
            e = t if e == ('const', 0) else ('or', e, t)
        cat3.append(e)
    orders3 = [list(p) for p in itertools.permutations(V3)]
    npairs = 2500 if q else 65536
    pairs = [(rnd.choice(cat3), rnd.choice(cat3)) for _ in range(npairs)] if q else [(x, y) for x in cat3 for y in cat3]
    for e1, e2 in pairs:
        order = rnd.choice(orders3)
        cases.append({'op': 'binop', 'order': order, 'e1': e1, 'e2': e2, 'bop': rnd.choice(['and', 'or', 'xor']), 'style': 'sym'})
    for e1 in cat3:
        for order in (orders3 if not q else [rnd.choice(orders3)]):
            cases.append({'op': 'not', 'order': order, 'e1': e1, 'style': 'sym'})
            for v in V3:
                cases.append({'op': 'restrict', 'order': order, 'e1': e1, 'v': v, 'b': rnd.random() < 0.5, 'style': 'sym'})
    ctx.exhaustive = not q
    V4 = ['a', 'b', 'c', 'd']
    orders4 = [list(p) for p in itertools.permutations(V4)]
    for _ in range(2500 if q else 60000):
        order = rnd.choice(orders4)
        e1, e2 = rand_expr(rnd, rnd.choice([2, 3, 4]), V4), rand_expr(rnd, rnd.choice([2, 3, 4]), V4)
        k = rnd.random()
        st = rnd.choice(['sym', 'kw', 'mix'])
        if k < 0.6:
            cases.append({'op': 'binop', 'order': order, 'e1': e1, 'e2': e2, 'bop': rnd.choice(['and', 'or', 'xor']), 'style': st, 'seed': rnd.randrange(1 << 30)})
        elif k < 0.75:
            cases.append({'op': 'not', 'order': order, 'e1': e1, 'style': st, 'seed': rnd.randrange(1 << 30)})
        else:
            cases.append({'op': 'restrict', 'order': order, 'e1': e1, 'v': rnd.choice(V4), 'b': rnd.random() < 0.5, 'style': st, 'seed': rnd.randrange(1 << 30)})
    # sparse orderings: operands over variables far apart in a longer ordering
    V5 = ['a', 'b', 'c', 'd', 'e']
    for _ in range(600 if q else 10000):
        order = rnd.sample(V5, 5)
        x, y = rnd.sample(order, 2)
        e1 = rnd.choice([('var', x), ('and', ('var', x), ('var', rnd.choice(order))), ('not', ('var', x))])
        e2 = rnd.choice([('var', y), ('or', ('var', y), ('var', rnd.choice(order))), ('not', ('var', y))])
        cases.append({'op': 'binop', 'order': order, 'e1': e1, 'e2': e2, 'bop': rnd.choice(['and', 'or', 'xor']), 'style': 'sym'})
    for _ in range(100 if q else 1000):
        n = rnd.choice([2, 3, 4])
        o1 = rnd.sample(V4, n)
        o2 = rnd.choice([list(reversed(o1)), o1 + ['z'], o1[:-1], rnd.sample(V4, n)])
        if o1 != o2:
            cases.append({'op': 'mixorder', 'order1': o1, 'order2': o2, 't1': rnd.choice(o1), 't2': rnd.choice(o2), 'bop': rnd.choice(['and', 'or', 'xor'])})
    # a variable outside the ordering must raise RuntimeError - also when that variable is in legal use in other live
    # diagrams of the process (the unique table and any per-node bookkeeping are global)
    for _ in range(600 if q else 10000):
        order = rnd.sample(V4, rnd.choice([1, 2, 3]))
        e = rand_expr(rnd, rnd.choice([1, 2]), V4)
        pre = [(' | '.join(rnd.sample(V4, rnd.choice([2, 3, 4]))), rnd.sample(V4, 4))] if rnd.random() < 0.7 else []
        cases.append({'op': 'build', 'notation': rnd.choice(['expr', 'lambda']), 'order': order, 'e': e, 'style': 'sym', 'pre': pre})
    # restrict / apply on diagrams that SHARE a node between branches at different levels, over orderings with hundreds of
    # unused variables (size-dependent code paths of the operations)
    for _ in range(150 if q else 3000):
        order = rnd.sample(V5, 5)
        x, y, u, v, w = order
        S = rnd.choice([('and', ('var', v), ('var', w)), ('or', ('var', v), ('not', ('var', w))), ('and', ('not', ('var', v)), ('var', w))])
        e1 = rnd.choice([('or', ('and', ('var', x), S), ('and', ('not', ('var', x)), ('or', ('var', y), S))),
                         ('and', ('or', ('var', x), ('or', ('var', y), ('var', u))), ('or', S, ('and', ('var', x), ('not', S)))),
                         ('or', ('and', ('var', x), ('and', ('var', y), S)), ('and', ('not', ('var', x)), S))])
        cases.append({'op': 'restrict', 'order': order, 'e1': e1, 'v': rnd.choice([v, w, u]), 'b': rnd.random() < 0.5, 'style': 'sym', 'pad': True,
                      'seed': rnd.randrange(1 << 30)})
        if rnd.random() < 0.3:
            cases.append({'op': 'binop', 'order': order, 'e1': e1, 'e2': S, 'bop': rnd.choice(['and', 'or', 'xor']), 'style': 'sym', 'pad': True,
                          'seed': rnd.randrange(1 << 30)})
    # a sub-diagram reached directly from the root on one branch and through a chain of two or three nodes on the other
    # ((x | y & u) & S and its variants over 5-6 variables), restricted / combined on the variables of the shared part
    V6 = ['a', 'b', 'c', 'd', 'e', 'f']
    for _ in range(250 if q else 5000):
        k = rnd.choice([5, 5, 6])
        order = rnd.sample(V6, k) if rnd.random() < 0.5 else sorted(rnd.sample(V6, k))
        early, late = order[:k - 2], order[k - 2:]
        lit = lambda z: ('var', z) if rnd.random() < 0.7 else ('not', ('var', z))
        chain = lit(early[-1])
        for z in reversed(early[:-1]):
            chain = (rnd.choice(['and', 'or']), lit(z), chain)
        S = (rnd.choice(['and', 'or']), lit(late[0]), lit(late[1]))
        e1 = (rnd.choice(['and', 'or']), chain, S)
        if rnd.random() < 0.3:
            e1 = ('not', e1)
        for v in (late if rnd.random() < 0.7 else [rnd.choice(order)]):
            cases.append({'op': 'restrict', 'order': order, 'e1': e1, 'v': v, 'b': rnd.random() < 0.5, 'style': 'sym', 'pad': rnd.random() < 0.15,
                          'seed': rnd.randrange(1 << 30)})
    events = bddfam.run_bool_events(ctx, cases)
    # the same operations in fresh interpreters whose terminal nodes are first created from ints / by nodes()
    sub = [dict(c) for c in rnd.sample([c for c in cases if c['op'] in ('binop', 'not', 'restrict')], 600 if q else 12000)]
    fev = []
    for pre in ('int-terminals', 'nodes-first'):
        fev += bddfam.run_fresh(ctx, pre, 'bool-event', sub[:len(sub) // 2] if pre == 'int-terminals' else sub[len(sub) // 2:])
    for i, e in enumerate(fev):
        e['tid'] = i
    ctx.evaluations += len(fev)
    verdicts = ctx.validate('TraceBool.tla', 'Trace.cfg', fev)
    for tid, v in sorted(verdicts.items()):
        ev = fev[tid]
        ctx.violation('fresh interpreter: %s: %s; %s' % (ev['op'], v['v'], json.dumps({k: ev[k] for k in ev if k != 'tid'})[:600]),
                      {'case': {k: ev[k] for k in ev if k in ('op', 'order', 'e1', 'e2', 'bop', 'v', 'b', 'style')}, 'event': ev, 'verdict': v})
    ctx.note('fresh_interpreter_events', len(fev))
    for e in events:
        o = e.get('out', {})
        if 'tree' in o and o['tree'][0] != 't':
            ctx.nontrivial.add(json.dumps([e['op'], e.get('order'), e.get('e1'), e.get('e2'), e.get('bop'), e.get('v'), e.get('b')]))
    ctx.note('ops', {o: sum(1 for e in events if e['op'] == o) for o in ('binop', 'not', 'restrict', 'mixorder')})
    ctx.sample(events[0])
    ctx.sample(events[-1])
    ctx.sample(events[len(events) // 2])


def replay(ctx, path):
    bddfam.replay_bool(ctx, path)
