"""C12 - strongly connected components are computed exactly."""
import json

import gen
import bigfam
import graphfam
from common import pmap


def scc_trace(E, n, **kw):
    b = {'calls': [{'op': 'new', 'V': list(range(n)), 'E': E, 'new': 1}, {'op': 'sccs', 'g': 1}]}
    b.update(kw)
    return b


def finish_traces(ctx, behs, cfg='TraceGraph.cfg', family_of=None):
    for t, b in enumerate(behs):
        b['trace'] = t
    evlists = pmap(graphfam.run_behaviour, behs)
    events = []
    for evs in evlists:
        for ev in evs:
            ev['tid'] = len(events)
            events.append(ev)
    ctx.evaluations += len(events)
    verdicts = ctx.validate('TraceGraph.tla', cfg, events)
    bad = []
    for tid, v in sorted(verdicts.items()):
        ev = events[tid]
        b = behs[ev['trace']]
        bad.append((b, ev, v))
        ctx.violation('%s: %s at step %d of history %s (outcome %s)' % (
            b.get('family', ''), v['v'], ev['i'], json.dumps(b['calls'])[:600], json.dumps(ev['out'])[:200]),
            {'behaviour': b, 'event': ev, 'verdict': v})
    return events, bad


def nontrivial_graph(E, n):
    return len(E) >= 2


def run(ctx):
    q = ctx.quick()
    rnd = ctx.rng
    ctx.rule = ('cases = digraph presentations given to compute_SCCs (event: graph + emitted components) and call histories that '
                'interleave compute_SCCs with add_node/add_edge; exhaustive over all labelled digraphs <=3 nodes (<=4 in thorough) '
                'under several insertion orders/namings/construction styles, sampled 5-node graphs, random graphs to 12 nodes; '
                'distinct_nontrivial = distinct edge sets with >=2 edges')
    # R1: Layer B - the iterative Nuutila routine as coded, every root order and successor order
    ctx.model('SCCAlgo.tla', 'SCCAlgo3live.cfg', timeout=1500)      # Exact + Terminates (liveness under weak fairness)
    if not q:
        ctx.model('SCCAlgo.tla', 'SCCAlgo4.cfg', timeout=3000, heap='16g')
    ctx.model('MC_Digraph.tla', 'Digraph_mc.cfg', timeout=1500)
    behs = []
    styles = [dict(naming='int', build='ctor'), dict(naming='str', build='ctor', shuf=1), dict(naming='tuple', build='incr', shuf=2)]
    for n in (1, 2, 3):
        for E in gen.all_digraphs(n):
            for st in styles:
                behs.append(scc_trace(E, n, family='exhaustive<=3', **st))
    g4 = list(gen.all_digraphs(4))
    if q:
        g4 = rnd.sample(g4, 6000)
    for E in g4:
        behs.append(scc_trace(E, 4, family='n=4', naming=rnd.choice(['int', 'str', 'tuple', 'neg', 'falsy']),
                              build=rnd.choice(['ctor', 'incr']), shuf=rnd.randrange(1 << 30)))
        if not q:
            behs.append(scc_trace(E, 4, family='n=4', naming='int', build='ctor'))
    ctx.exhaustive = not q
    for i in range(6000 if q else 150000):
        n = 5
        behs.append(scc_trace(gen.rand_digraph(rnd, n, rnd.choice([0.15, 0.25, 0.35])), n, family='n=5',
                              naming=rnd.choice(['int', 'str', 'falsy']), build=rnd.choice(['ctor', 'incr']), shuf=rnd.randrange(1 << 30)))
    for i in range(3000 if q else 60000):
        n = rnd.randint(6, 12)
        behs.append(scc_trace(gen.rand_digraph(rnd, n, rnd.choice([0.08, 0.12, 0.2, 0.3])), n, family='random<=12',
                              naming=rnd.choice(['int', 'str', 'mixed', 'falsy']), build=rnd.choice(['ctor', 'incr']), shuf=rnd.randrange(1 << 30)))
    # beyond every small-scope threshold: 18-40 nodes, hubs with large fan-out / fan-in, long chains and cycles
    for i in range(400 if q else 8000):
        n = rnd.randint(18, 40)
        E = set()
        for _ in range(rnd.randint(1, 3)):                       # hubs
            h = rnd.randrange(n)
            for w in rnd.sample(range(n), rnd.randint(17, n - 1)):
                E.add((h, w) if rnd.random() < 0.7 else (w, h))
        for _ in range(rnd.randint(0, 3)):                       # cycles / chains through random nodes
            path = rnd.sample(range(n), rnd.randint(2, min(n, 9)))
            for a, b in zip(path, path[1:] + path[:1] if rnd.random() < 0.7 else path[1:] + [path[-1]]):
                E.add((a, b))
        for _ in range(rnd.randint(0, n)):
            E.add((rnd.randrange(n), rnd.randrange(n)))
        behs.append(scc_trace([list(e) for e in sorted(E)], n, family='large with hubs (18-40 nodes)',
                              naming=rnd.choice(['int', 'str']), build=rnd.choice(['ctor', 'incr']), shuf=rnd.randrange(1 << 30)))
    # every small core shape with one node padded to a large fan-out (or fan-in): degree thresholds x all shapes
    cores = list(gen.all_digraphs(3)) + (rnd.sample(g4, 300) if q else g4[:20000:4])
    for E in cores:
        n0 = 3 if all(max(e) < 3 for e in E) and len(E) <= 9 and (not E or max(max(e) for e in E) < 3) else 4
        for h in ([rnd.randrange(n0)] if q else range(n0)):
            k = rnd.choice([16, 17, 18, 24])
            pad = [[h, n0 + j] if rnd.random() < 0.85 else [n0 + j, h] for j in range(k)]
            behs.append(scc_trace([list(e) for e in E] + pad, n0 + k, family='small core + padded fan-out',
                                  naming=rnd.choice(['int', 'str']), build='ctor', shuf=rnd.choice([None, rnd.randrange(1 << 30)])))
    # histories (spec -> code): behaviours generated by TLC from Digraph.tla, replayed on the real objects
    sim = graphfam.simulate(ctx, 'MC_Digraph.tla', 'Digraph_sim.cfg', 400 if q else 8000, 10, ctx.seed + 1)
    for calls in sim:
        behs.append({'calls': calls, 'family': 'tlc-simulated history', 'naming': rnd.choice(['int', 'str']), 'shuf': rnd.randrange(1 << 30)})
    # histories (code -> spec): larger graphs, SCC queries interleaved with mutation
    for i in range(600 if q else 10000):
        n = rnd.randint(3, 7)
        calls = [{'op': 'new', 'V': list(range(rnd.randint(0, n))), 'E': gen.rand_digraph(rnd, n, 0.2), 'new': 1}]
        gs = [1]
        if rnd.random() < 0.4:          # a second graph over the same node objects
            calls.append({'op': 'new', 'V': list(range(rnd.randint(0, n))), 'E': gen.rand_digraph(rnd, n, 0.25), 'new': 2})
            gs = [1, 2]
        for _ in range(rnd.randint(3, 8)):
            r = rnd.random()
            g = rnd.choice(gs)
            if r < 0.3:
                calls.append({'op': 'sccs', 'g': g})
            elif r < 0.5:               # the generator is only partly consumed (and left suspended, or abandoned)
                calls.append({'op': 'sccs_some', 'k': rnd.randint(0, 3), 'hold': rnd.random() < 0.5, 'g': g})
            elif r < 0.85:
                calls.append({'op': 'add_edge', 's': rnd.randrange(n), 'd': rnd.randrange(n), 'g': g})
            else:
                calls.append({'op': 'add_node', 'v': rnd.randrange(n + 1), 'g': g})
        for g in gs:
            calls.append({'op': 'sccs', 'g': g})
        behs.append({'calls': calls, 'family': 'scc/mutation history', 'naming': rnd.choice(['int', 'str', 'tuple', 'obj']), 'shuf': rnd.randrange(1 << 30)})
    for b in behs:
        c0 = b['calls'][0]
        if len(c0.get('E', [])) >= 2:
            ctx.nontrivial.add(json.dumps(sorted(c0['E'])))
    fams = {}
    for b in behs:
        fams[b['family']] = fams.get(b['family'], 0) + 1
    ctx.note('histories_by_family', fams)
    events, bad = finish_traces(ctx, behs)
    # Layer-B binding (diagnostic): the recorded DFS schedule of the real routine is replayed through the
    # SCCAlgo actions; every micro-event must be an enabled step and the emitted sequences must coincide
    sched = []
    for t in range(300 if q else 5000):
        n = rnd.randint(1, 9)
        sched.append({'trace': t, 'n': n, 'E': gen.rand_digraph(rnd, n), 'naming': rnd.choice(['int', 'str', 'tuple', 'obj']), 'shuf': rnd.randrange(1 << 30)})
    sev = []
    for evs in pmap(graphfam.scc_schedule_events, sched):
        for e in evs:
            e['tid'] = len(sev)
            sev.append(e)
    drift = ctx.validate('TraceSCC.tla', 'TraceSCC.cfg', sev)
    ctx.note('mechanism_binding', 'ok' if not drift else 'drift(compute_SCCs): %d of %d recorded schedules do not follow SCCAlgo' % (len(drift), len(sched)))
    ctx.note('schedule_micro_events_validated', len(sev))
    if drift:
        first = sorted(drift.items())[0]
        ctx.log('mechanism drift (diagnostic only): ' + json.dumps(first[1]) + ' at ' + json.dumps(sev[first[0]])[:300])
    seen = set()
    for ev in events:
        if ev['i'] == 1 and ev['op'] == 'sccs' and len(seen) < 3 and len(ev.get('pool', {}).get('1', {}).get('E', [])) > 3:
            seen.add(ev['tid'])
            ctx.sample({'graph': ev['pool']['1'], 'components': ev['out']})
    ctx.sample({'history': sim[0] if sim else None})
    # large lassos: one big cycle / a long chain into a small cycle (size-dependent behaviour of the SCC routine)
    bigfam.run_big(ctx, bigfam.cases(rnd, ['sccs'], 6 if q else 60, nrange=(1050, 1600) if q else (1050, 4000)))


def replay(ctx, path):
    if bigfam.maybe_replay(ctx, path):
        return
    obj = json.load(open(path))
    b = obj['case']['behaviour']
    events, bad = finish_traces(ctx, [b])
    ctx.log('replayed: ' + json.dumps([e['out'] for e in events])[:500])
