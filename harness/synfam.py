"""Syntactic layer (C08 - C11): constructors, casts, modelcheck guards, printing/parsing, equality."""
import itertools
from common import exc_name
import json
import re

import pymc
from pymc import LANGS, T, to_tree, lang_of, UNARY, BINARY, NARY

RESERVED = {'true', 'false', 'not', 'or', 'and', 'A', 'E', 'X', 'F', 'G', 'U', 'R'}
TOK_RE = re.compile(r'\s*(?:(?P<w>[a-zA-Z_][a-zA-Z_0-9]*)|(?P<e>"(?:[^"\\\n]|\\[^\n])*")|(?P<lp>\()|(?P<rp>\))|(?P<s>-->|~|\||&)|(?P<bad>\S))')


def tokenise(text):
    """the lexical classes of spec/Syntax.tla"""
    toks = []
    pos = 0
    text = text.rstrip()
    while pos < len(text):
        m = TOK_RE.match(text, pos)
        if not m:
            break
        pos = m.end()
        if m.group('w') is not None:
            toks.append(['w', m.group('w')])
        elif m.group('e') is not None:
            toks.append(['e', m.group('e')[1:-1]])
        elif m.group('lp'):
            toks.append(['(', '('])
        elif m.group('rp'):
            toks.append([')', ')'])
        elif m.group('s'):
            toks.append(['s', m.group('s')])
        else:
            toks.append(['bad', m.group('bad')])
    return toks


def untokenise(toks):
    return ' '.join('"%s"' % t[1] if t[0] == 'e' else t[1] for t in toks)


class NoSymbol(Exception):
    pass


class OddStr(str):
    """a str subclass whose str() differs from its value (like a str-mixin Enum member).  The documented type of an atom
    name is str and the library stores str(name): the atom's name is what str() shows"""

    def __new__(cls, shown):
        o = str.__new__(cls, 'zz_' + shown)
        o.shown = shown
        return o

    def __str__(self):
        return self.shown

    __repr__ = __str__


def build(tree, Lang, style='obj'):
    if style == 'rewrap' and tree[0] not in ('ap', 'true', 'false'):
        # the formula is first built around a stand-in and the operands of one inner node are then replaced IN PLACE with
        # wrap_subformulas (documented: "Replaces subformulas of the current object"), by operands of another height
        path = []
        node = tree
        while node[0] not in ('ap', 'true', 'false') and any(x[0] not in ('ap', 'true', 'false') for x in node[1:]):
            i = next(j for j, x in enumerate(node[1:]) if x[0] not in ('ap', 'true', 'false'))
            path.append(i)
            node = node[1 + i]
        if path and node[0] not in ('ap', 'true', 'false'):
            def standin(t, p):
                if not p:
                    return (t[0],) + tuple(('not', ('not', ('ap', 'w'))) for _ in t[1:])
                return t[:1 + p[0]] + (standin(t[1 + p[0]], p[1:]),) + t[2 + p[0]:]
            try:
                obj = build(standin(tree, path), Lang, 'obj')
                inner = obj
                for i in path:
                    inner = inner.subformula(i)
                inner.wrap_subformulas([build(x, Lang, 'obj') for x in node[1:]], Lang.Formula)
                return obj
            except NoSymbol:
                raise
            except Exception:
                pass            # stand-in not constructible in this language (kind restrictions): plain construction
        return build(tree, Lang, 'obj')
    return _build(tree, Lang, style)


def _build(tree, Lang, style='obj'):
    """bottom-up construction with Lang's own classes.  style 'raw': atoms/booleans are passed as
    plain str/bool operands where the constructors allow it"""
    t = tree[0]
    if t == 'ap':
        return Lang.AtomicProposition(OddStr(tree[1]) if style == 'strsub' else tree[1])
    if t in ('true', 'false'):
        return Lang.Bool(t == 'true')
    name = UNARY.get(t) or BINARY.get(t) or NARY.get(t)
    if not hasattr(Lang, name):
        raise NoSymbol(name)
    if style == 'ops' and (t == 'not' or (t in ('and', 'or') and len(tree) == 3)):
        # construction through the overloaded Python operators ~ & | ; a leaf left operand is passed raw, so that the
        # reflected operators (__rand__/__ror__) are exercised too
        if t == 'not':
            return ~_build(tree[1], Lang, style)
        lhs, rhs = tree[1], _build(tree[2], Lang, style)
        if lhs[0] == 'ap':
            lhs = lhs[1]
        elif lhs[0] in ('true', 'false'):
            lhs = lhs[0] == 'true'
        else:
            lhs = _build(lhs, Lang, style)
        return (lhs & rhs) if t == 'and' else (lhs | rhs)
    args = []
    for x in tree[1:]:
        if style == 'raw' and x[0] == 'ap':
            args.append(x[1])
        elif style == 'raw' and x[0] in ('true', 'false'):
            args.append(x[0] == 'true')
        else:
            args.append(_build(x, Lang, style))
    return getattr(Lang, name)(*args)


def kind_of(obj):
    lg = lang_of(obj)
    try:
        if lg == 'PL':
            return 'state'
        if lg == 'CTLS':
            return 'state' if obj.is_a_state_formula() else 'path'
        if lg == 'CTL':
            return 'state' if isinstance(obj, pymc.CTL.StateFormula) else 'path' if isinstance(obj, pymc.CTL.PathFormula) else 'unknown'
        if lg == 'LTL':
            return 'state' if isinstance(obj, pymc.LTL.StateFormula) else 'path' if isinstance(obj, pymc.LTL.PathFormula) else 'unknown'
    except Exception:
        return 'unknown'
    return 'unknown'


def describe(obj):
    return {'tree': to_tree(obj), 'lang': lang_of(obj), 'kind': kind_of(obj)}


def guarded(fn):
    try:
        return fn()
    except NoSymbol:
        return {'exc': 'nosymbol'}
    except (KeyboardInterrupt, SystemExit, MemoryError):
        raise
    except BaseException as ex:
        return {'exc': exc_name(ex), 'msg': str(ex)[:80]}


SMALL_K = None


def small_k():
    global SMALL_K
    if SMALL_K is None:
        SMALL_K = pymc.Kripke(S=[0, 1], R=[(0, 1), (1, 1), (1, 0)], L={0: {'p'}, 1: {'q'}})
    return SMALL_K


PARSERS = {}


def parser(lang):
    if lang not in PARSERS:
        PARSERS[lang] = LANGS[lang].Parser()
    return PARSERS[lang]


def syn_event(c):
    op = c['op']
    ev = {k: v for k, v in c.items() if k not in ('style', 'style2', 'style3')}
    if op == 'construct' and c.get('sub_lang'):
        # operands built with another language's classes, root operator with lang's: the constructor
        # must cast them and still enforce the kind (state/path) it needs
        f = T(c['f'])
        try:
            kids = [build(x, LANGS[c['sub_lang']]) for x in f[1:]]
        except BaseException:
            return None
        name = UNARY.get(f[0]) or BINARY.get(f[0]) or NARY.get(f[0])
        if name is None or not hasattr(LANGS[c['lang']], name):
            return None
        ev['out'] = guarded(lambda: dict(describe(getattr(LANGS[c['lang']], name)(*kids)), kind='unknown'))
    elif op == 'construct':
        ev['out'] = guarded(lambda: describe(build(T(c['f']), LANGS[c['lang']], c.get('style', 'obj'))))
    elif op == 'cast':
        try:
            src = build(T(c['f']), LANGS[c['src']])
        except BaseException:
            return None                      # not constructible in the source language: nothing to cast
        ev['out'] = guarded(lambda: describe(src.cast_to(LANGS[c['dst']])))
    elif op == 'mcguard':
        def run():
            if c.get('mode') == 'text':
                fo = pymc.to_text(T(c['f']), 'CTLS')
            else:
                fo = build(T(c['f']), LANGS[c.get('built_in', 'CTLS')])
            k = small_k() if c['kripke'] else c.get('notk', 'DiGraph') == 'DiGraph' and pymc.DiGraph(V=[0], E=[(0, 0)]) or None
            with pymc.quiet():
                r = LANGS[c['logic']].modelcheck(k, fo)
            return {'set': 1 if isinstance(r, (set, frozenset)) else 0}
        ev['out'] = guarded(run)
    elif op == 'roundtrip':
        def run():
            obj = build(T(c['f']), LANGS[c['lang']], c.get('style', 'obj'))
            s = str(obj.cast_to(pymc.CTLS)) if c['lang'] == 'CTL' else str(obj)
            ev['text'] = s
            ev['toks'] = tokenise(s)
            return describe(parser(c['lang'])(s))
        ev['out'] = guarded(run)
    elif op == 'parse':
        text = c.get('text')
        if text is None:
            text = untokenise(c['toks'])
        ev['len'] = len(text)
        ev['text'] = text

        def run():
            try:
                if c.get('prime'):       # replay of a parser-construction history event (see c10_worker.py)
                    LANGS[c['lang']].Parser(language=LANGS[c['prime']])('p')
                    return describe(LANGS[c['lang']].Parser()(text))
                return describe(parser(c['lang'])(text))
            except pymc.parsermod.ParserError as ex:
                return {'exc': exc_name(ex), 'pos': int(ex.pos) if isinstance(ex.pos, int) else -1}
        ev['out'] = guarded(run)
        if 'exc' in ev['out'] and 'pos' not in ev['out']:
            ev['out']['pos'] = -1
    elif op == 'eq':
        L = LANGS[c['lang']]
        a = _mk(T(c['f']), L, c.get('style', 'obj'), c['lang'])
        b = _mk(T(c['g']), L, c.get('style2', 'obj'), c['lang'])
        ev.update({'e12': bool(a == b), 'e21': bool(b == a), 'h': hash(a) == hash(b), 'setsize': len({a, b}),
                   'key': {a: 1}.get(b) == 1, 'refl': bool(a == a) and bool(b == b)})
    elif op == 'trans':
        L = LANGS[c['lang']]
        a, b, d = (_mk(T(c[k]), L, c.get(s, 'obj'), c['lang']) for k, s in (('f', 'style'), ('g', 'style2'), ('h', 'style3')))
        ev.update({'e12': bool(a == b), 'e23': bool(b == d), 'e13': bool(a == d)})
    elif op == 'clone':
        try:
            a = _mk(T(c['f']), LANGS[c['lang']], c.get('style', 'obj'), c['lang'])
            b = a.clone()
            ev.update({'g': to_tree(b), 'e': bool(a == b) and bool(b == a), 'shared': len(_ids(a) & _ids(b)), 'lang2': lang_of(b)})
        except BaseException as ex:
            ev['exc'] = exc_name(ex)
    elif op == 'bool':
        L = LANGS[c['lang']]
        bo = L.Bool(c['b'])
        ev.update({'e1': bool(bo == c['b']), 'e2': bool(c['b'] == bo), 'x1': bool(bo == (not c['b'])), 'x2': bool((not c['b']) == bo)})
    return ev


def _mk(tree, L, style, lang):
    if style == 'parsed':
        s = pymc.to_text(tree, lang)
        return parser(lang)(s)
    return build(tree, L, style)


def _ids(obj):
    out = set()
    stack = [obj]
    while stack:
        o = stack.pop()
        if o.__class__.__name__ in ('Bool', 'AtomicProposition'):
            continue                # immutable leaves may legitimately be shared
        out.add(id(o))
        for v in vars(o).values():          # mutable containers held by the node (e.g. its operand list); immutable ones may be shared
            if isinstance(v, (list, dict, set)):
                out.add(id(v))
        stack.extend(o.subformulas())
    return out


# ---------------------------------------------------------------- enumerations
def union_trees(depth, leaves):
    """all operator trees of at most the given depth with the documented arities over the union alphabet"""
    allt = list(leaves)
    for _ in range(depth):
        nxt = [(o, f) for o in ('not', 'X', 'F', 'G', 'A', 'E') for f in allt]
        nxt += [(o, f, g) for o in ('imp', 'U', 'R', 'or', 'and') for f in allt for g in allt]
        allt = dedup(list(leaves) + nxt)
    return allt


def dedup(xs):
    seen = set()
    out = []
    for x in xs:
        if x not in seen:
            seen.add(x)
            out.append(x)
    return out


def formulas_of(lang, depth2_sample=None, rnd=None, atoms=(('ap', 'p'), ('ap', 'q_1'))):
    """depth<=2 formulas of a logic (n-ary and/or of arity 2-3), identifier atoms"""
    P, Q = atoms
    L0 = [P, Q, ('true',), ('false',)]

    def un(S, ops):
        return [(o, f) for o in ops for f in S]

    def bi(S, ops, S2=None):
        return [(o, f, g) for o in ops for f in S for g in (S2 or S)]
    if lang == 'PL':
        d1 = L0 + un(L0, ['not']) + bi(L0, ['or', 'and', 'imp'])
        m = [P, ('not', Q), ('or', P, Q), ('and', Q, P, Q), ('imp', P, Q)]
        return dedup(d1 + un(d1, ['not']) + bi(m, ['or', 'and', 'imp']) + [(o, a, b, c) for o in ('or', 'and') for a in m for b in [P] for c in m])
    if lang in ('LTL', 'CTLS'):
        ops1, ops2 = ['not', 'X', 'F', 'G'], ['or', 'and', 'imp', 'U', 'R']
        d1 = L0 + un(L0, ops1) + bi(L0, ops2)
        m = [P, ('not', Q), ('X', P), ('U', P, Q), ('or', P, Q), ('G', Q), ('and', P, Q, P), ('R', Q, P)]
        d2 = un(m, ops1) + bi(m, ops2) + [(o, a, b, c) for o in ('or', 'and') for a in m for b in [Q] for c in m[:4]]
        if lang == 'LTL':
            return dedup(d1 + d2 + [('A', g) for g in d1 + un(m, ops1)])
        qm = [(q, g) for q in 'AE' for g in [('X', P), ('U', P, Q), ('or', ('F', P), Q), P]]
        return dedup(d1 + d2 + [(q, g) for q in 'AE' for g in d1] + un(qm, ops1 + ['A', 'E']) + bi(qm, ops2))
    if lang == 'CTL':
        def cq(S, S2=None):
            return [(q, (o, f)) for q in 'AE' for o in 'XFG' for f in S] + [(q, (o, f, g)) for q in 'AE' for o in 'UR' for f in S for g in (S2 or S)]
        d1 = L0 + cq(L0) + un(L0, ['not']) + bi(L0, ['or', 'and', 'imp'])
        m = [P, ('not', Q), ('E', ('X', P)), ('A', ('U', P, Q)), ('or', P, Q), ('and', P, Q, P)]
        return dedup(d1 + cq(m) + un(m, ['not']) + bi(m, ['or', 'and', 'imp']) + [(o, a, b, c) for o in ('or', 'and') for a in m for b in [Q] for c in m])
    raise ValueError(lang)


def rand_formula(rnd, lang, depth, atoms):
    leaves = [('ap', a) for a in atoms] + [('true',), ('false',)]

    def path(d, quant):
        if d == 0 or rnd.random() < 0.2:
            return rnd.choice(leaves)
        ops = ['not', 'or', 'and', 'imp'] + ([] if lang == 'PL' else ['X', 'F', 'G', 'U', 'R']) + (['A', 'E'] if quant else [])
        t = rnd.choice(ops)
        if t in ('not', 'X', 'F', 'G', 'A', 'E'):
            return (t, path(d - 1, quant))
        if t in ('or', 'and') and rnd.random() < 0.3:
            return (t,) + tuple(path(d - 1, quant) for _ in range(rnd.choice([3, 4])))
        return (t, path(d - 1, quant), path(d - 1, quant))

    def ctl(d):
        if d == 0 or rnd.random() < 0.2:
            return rnd.choice(leaves)
        t = rnd.choice(['not', 'or', 'and', 'imp', 'AX', 'AF', 'AG', 'AU', 'AR', 'EX', 'EF', 'EG', 'EU', 'ER'])
        if t == 'not':
            return (t, ctl(d - 1))
        if t in ('or', 'and'):
            return (t,) + tuple(ctl(d - 1) for _ in range(rnd.choice([2, 2, 3])))
        if t == 'imp':
            return (t, ctl(d - 1), ctl(d - 1))
        if t[1] in 'XFG':
            return (t[0], (t[1], ctl(d - 1)))
        return (t[0], (t[1], ctl(d - 1), ctl(d - 1)))
    if lang == 'CTL':
        return ctl(depth)
    if lang == 'LTL':
        g = path(depth, False)
        return ('A', g) if rnd.random() < 0.3 else g
    if lang == 'CTLS':
        return path(depth, True)
    return path(depth, False)


def run_events(ctx, cases):
    from common import pmap, exc_name
    for i, c in enumerate(cases):
        c['tid'] = i
    evs = pmap(syn_event, cases)
    keep = []
    for c, ev in zip(cases, evs):
        if ev is not None:
            ev['tid'] = len(keep)
            keep.append((c, ev))
    events = [ev for _, ev in keep]
    ctx.evaluations += len(events)
    verdicts = ctx.validate('TraceSyntax.tla', 'TraceSyntax.cfg', events)
    for tid, v in sorted(verdicts.items()):
        c, ev = keep[tid]
        if v['v'].startswith('known:'):
            ctx.known(v['v'][6:], json.dumps({k: ev[k] for k in ev if k != 'tid'})[:300])
            continue
        ctx.violation('%s: %s; %s' % (ev['op'], v['v'], json.dumps({k: ev[k] for k in ev if k not in ('tid',)})[:700]),
                      {'case': c, 'event': ev, 'verdict': v})
    return keep


def replay(ctx, path):
    obj = json.load(open(path))
    c = obj['case']['case']
    keep = run_events(ctx, [c])
    ctx.log('replayed: ' + json.dumps(keep[0][1] if keep else None)[:600])
