"""OBDD histories and operations (C16-C18): replay abstract behaviours on the real BDD package,
project the heap, and let TraceBDD / TraceBool judge."""
import gc
from common import exc_name
import json
import random
import re

import pymc
from pymc import pyModelChecking
import pyModelChecking.BDD as BDDpkg
from pyModelChecking.BDD import OBDD, BDDNode
import pyModelChecking.BDD.BDD as bddmod


# variable names are arbitrary Python identifiers: the abstract names a..f, z of cases and events are mapped to concrete
# names only at the boundary to the library (and mapped back in every projection).  Pools: one letter; names that contain
# one another; the usual numbering past 9; long names; non-ASCII identifiers.  Concrete names are built at run time
# (not interned literals), as names read from a file or produced by formatting are.
ABS = ['a', 'b', 'c', 'd', 'e', 'f', 'z']
VNAMES = [None,
          dict(zip(ABS, ['x1', 'x10', 'x', 'x1_', 'xx', 'x11', 'x100'])),
          dict(zip(ABS, ['a', 'ab', 'abc', 'b', 'ba', 'aa', 'abcd'])),
          dict(zip(ABS, ['v' * 40 + 'a', 'v' * 40, 'v' * 41, 'w_' * 30, 'v' * 39, 'V' * 40, 'z' * 50])),
          dict(zip(ABS, ['\u03b1', '\u03b1\u03b2', '\u03b2', '\u00e9t\u00e9', 'na\u00efve', '\u03b11', '\u03c9'])),
          dict(zip(ABS, ['var', 'Not', 'And', 'true', 'lambda_', 'false', 'nil']))]


class Names(object):
    def __init__(self, k, pad=0):
        self.pad = pad
        self.fwd = VNAMES[k % len(VNAMES)] if k is not None else None
        self.bwd = {v: a for a, v in self.fwd.items()} if self.fwd else None

    def c(self, v):                       # abstract -> concrete (a fresh string object each time)
        if not self.fwd or not isinstance(v, str):
            return v
        w = self.fwd.get(v, v)
        return ''.join(list(w))

    def a(self, v):                       # concrete -> abstract
        if not self.bwd:
            return v
        return self.bwd.get(v, v)

    def order(self, o):
        out = [self.c(v) for v in o]
        if self.pad:
            # a long ordering: hundreds of further variables that the functions never mention, spread between the used ones
            rnd = random.Random(self.pad)
            fill = ['pad_%04d' % i for i in range(self.pad)]
            cuts = sorted(rnd.randrange(len(fill) + 1) for _ in out)
            res, prev = [], 0
            for v, c in zip(out, cuts):
                res.extend(fill[prev:c])
                res.append(v)
                prev = c
            res.extend(fill[prev:])
            return res
        return out

    def expr(self, e):
        if e[0] == 'var':
            return ('var', self.c(e[1]))
        if e[0] in ('const', 'bad'):
            return e
        return (e[0],) + tuple(self.expr(x) for x in e[1:])


def present_order(order, k):
    """the `ordering` argument as a plain list (k%3==0), a ListOrdering object (1) or Ordering(list) (2): the documented
    type is Ordering; two OBDDs over equal orderings must be compatible whichever way each was given"""
    from pyModelChecking.BDD.ordering import Ordering, ListOrdering
    order = list(order)
    return order if k % 3 == 0 else ListOrdering(order) if k % 3 == 1 else Ordering(order)


def tree(node, nm=None):
    if isinstance(node, bddmod.BDDTerminalNode):
        return ['t', 1 if node.value else 0]
    return [nm.a(node.var) if nm else node.var, tree(node.low, nm), tree(node.high, nm)]


def rebuild(node, nm=None):
    """a hand-built copy of a diagram: BDDNode(var, low, high) bottom-up with freshly made name strings"""
    if isinstance(node, bddmod.BDDTerminalNode):
        return BDDNode(bool(node.value))
    return BDDNode(''.join(list(node.var)), rebuild(node.low), rebuild(node.high))


def heap_scan(ballast_ids=None, roots=()):
    """(number of live non-terminals, number of duplicate (var, low, high) pairs).  With a ballast (diagrams the harness
    keeps alive during the whole history, see make_ballast) the count is that of the history's own world: nodes outside
    the ballast plus ballast nodes that are reachable from a handle of the history."""
    nodes = [n for n in BDDNode.nodes() if isinstance(n, bddmod.BDDNonTerminalNode)]
    seen = {}
    dups = 0
    for n in nodes:
        key = (n.var, id(n.low), id(n.high))
        if key in seen:
            dups += 1
        seen[key] = n
    if ballast_ids is None:
        return len(nodes), dups
    reach = set()
    stack = [r for r in roots]
    while stack:
        n = stack.pop()
        if id(n) in reach or not isinstance(n, bddmod.BDDNonTerminalNode):
            continue
        reach.add(id(n))
        stack.extend((n.low, n.high))
    return sum(1 for n in nodes if id(n) not in ballast_ids) + len(reach & ballast_ids), dups


def make_ballast(spec):
    """many diagrams kept alive while a history runs: the unique table is consulted through the parent indexes of the
    sons, whose length (and every size-dependent code path) grows with the number of live nodes"""
    rnd = random.Random(spec['seed'])
    vs = list(spec['order'])
    keep = []
    for i in range(spec['n']):
        e = rand_expr(rnd, rnd.choice([2, 3, 3, 4]), vs)
        try:
            o = OBDD(render(e, 'sym'), list(vs))
            keep.append(o)
            v = rnd.choice(vs[:2])
            keep.append(OBDD(v, list(vs)) & o)
            keep.append(OBDD(v, list(vs)) | o)
        except Exception:
            pass
    return keep


def run_history(b):
    """b: {trace, order, calls}"""
    gc.disable()
    try:
        return _run(b)
    finally:
        gc.enable()


def _run(b):
    ballast = make_ballast(b['ballast']) if b.get('ballast') else None
    ballast_ids = None
    if ballast is not None:
        ballast_ids = set(id(n) for n in BDDNode.nodes() if isinstance(n, bddmod.BDDNonTerminalNode))
    nm = Names(b.get('vnames', b.get('shuf', b.get('trace', 0))) if b.get('vnames', 'vary') is not None else None,
               pad=(460 + (b.get('trace', 0) * 37) % 600 if b.get('trace', 0) % 9 == 4 else 0))
    order = list(b['order'])
    ordk = b.get('shuf', b.get('trace', 0)) * 3 if b.get('ordstyle', 'vary') == 'vary' else 0
    ho = {}
    held = {}
    parked = {}
    events = [{'trace': b['trace'], 'i': 0, 'op': 'start', 'order': order}]
    for c in b['calls']:
        ev = dict(c)
        ev.update({'trace': b['trace'], 'i': len(events)})
        op = c['op']
        try:
            if op == 'var':
                o = list(c.get('order', order))
                po = present_order(nm.order(o), ordk + len(events))
                if b.get('build', 'expr') == 'expr':
                    held[c['h']] = OBDD(nm.c(c['v']), po)
                elif (ordk + len(events)) % 2:
                    held[c['h']] = OBDD(BDDNode(nm.c(c['v']), BDDNode(False), BDDNode(True)), po)
                else:           # the optional parameter: the node is taken without the ordering check
                    held[c['h']] = OBDD(BDDNode(nm.c(c['v']), BDDNode(False), BDDNode(True)), po, check_ordering=False)
                ho[c['h']] = o
            elif op == 'const':
                o = list(c.get('order', order))
                held[c['h']] = OBDD('1' if c['b'] else '0', present_order(nm.order(o), ordk + len(events)))
                ho[c['h']] = o
            elif op == 'apply':
                a, d = held[c['h1']], held[c['h2']]
                ev['mixed'] = ho[c['h1']] != ho[c['h2']]
                ho[c['h']] = ho[c['h1']]
                try:
                    held[c['h']] = (a & d) if c['bop'] == 'and' else (a | d) if c['bop'] == 'or' else (a ^ d)
                finally:
                    del a, d         # the harness must not keep the operands alive (also when the call raises)
            elif op == 'not':
                ho[c['h']] = ho[c['h1']]
                held[c['h']] = ~held[c['h1']]
            elif op == 'restrict':
                ho[c['h']] = ho[c['h1']]
                held[c['h']] = held[c['h1']].restrict(nm.c(c['v']), c['b'] if b.get('restrict_arg', 'bool') == 'bool' else int(c['b']))
            elif op == 'park':
                parked[c['h']] = held.pop(c['h'])
            elif op == 'release':
                held.pop(c['h'], None)
                parked.pop(c['h'], None)
            elif op == 'gc':
                gc.collect()
            ev['out'] = {'ok': 1}
        except (KeyboardInterrupt, SystemExit, MemoryError):
            raise
        except BaseException as ex:
            ev['out'] = {'exc': exc_name(ex), 'msg': str(ex)[:100]}
            ex = None
        allh = dict(held)
        allh.update(parked)
        live, dups = heap_scan(ballast_ids, [o.root for o in allh.values()])
        names = sorted(allh)
        same = []
        for i, x in enumerate(names):
            for y in names[i:]:
                try:
                    eq = bool(allh[x] == allh[y])
                except Exception:
                    eq = None
                same.append([x, y, eq, allh[x].root is allh[y].root])
        ev['proj'] = {'roots': {h: tree(o.root, nm) for h, o in allh.items()}, 'live': live, 'dups': dups, 'same': same}
        events.append(ev)
    held.clear()
    parked.clear()
    if ballast is not None:
        events[0]['ballast_nodes'] = len(ballast_ids)
        del ballast[:]
    return events


# ---------------------------------------------------------------- expressions (C17, C18)
# plainly NON-Boolean syntax only: arithmetic, calls, subscripts, attribute access, containers, numbers other than 0/1, strings.
# (Exclusive or, conditional expressions and comparisons of Boolean operands denote Boolean functions: a parser that
# accepts them as well does not contradict "non-Boolean syntax raises SyntaxError", so they are not generated.)
BAD_TEXT = {'plus': '(a + b)', 'call': 'f(a)', 'num2': '2', 'minus': '(-a)', 'str': "'a'", 'sub': 'a[0]', 'uplus': '(+a)',
            'mult': '(a * b)', 'attr': 'a.b', 'list': '[a]', 'pow': '(a ** 2)', 'floordiv': '(a // b)'}


def render(e, style, rnd=None):
    """style: 'sym' (& | ~), 'kw' (and or not), 'mix' (random per node)"""
    t = e[0]
    if t == 'var':
        return e[1]
    if t == 'const':
        if style == 'sym':
            return str(e[1])
        return rnd.choice([str(e[1]), 'True' if e[1] else 'False']) if rnd else str(e[1])
    if t == 'bad':
        return BAD_TEXT[e[1]]
    s = style if style != 'mix' else rnd.choice(['sym', 'kw'])
    if t == 'not':
        return ('~(%s)' if s == 'sym' else 'not (%s)') % render(e[1], style, rnd)
    op = {'and': '&', 'or': '|'}[t] if s == 'sym' else t
    return '(%s) %s (%s)' % (render(e[1], style, rnd), op, render(e[2], style, rnd))


def render_chain(e):
    """keyword chains without parentheses where precedence allows: exercises n-ary BoolOp nodes"""
    t = e[0]
    if t in ('var', 'const', 'bad'):
        return render(e, 'sym')
    if t == 'not':
        return 'not %s' % _atomise(e[1])
    parts = []

    def collect(x):
        if x[0] == t:
            collect(x[1]), collect(x[2])
        else:
            parts.append(_atomise(x) if x[0] in ('and', 'or') else render_chain(x))
    collect(e)
    return (' %s ' % t).join(parts)


def _atomise(x):
    return render_chain(x) if x[0] in ('var', 'const') else '(%s)' % render_chain(x)


def obdd_out(fn, nm=None):
    try:
        o = fn()
        return o, {'tree': tree(o.root, nm), 'vars': sorted((nm.a(v) if nm else v) for v in o.variables())}
    except (KeyboardInterrupt, SystemExit, MemoryError):
        raise
    except BaseException as ex:
        return None, {'exc': exc_name(ex), 'msg': str(ex)[:100]}


def bool_event(c):
    rnd = random.Random(c.get('seed', 0))
    op = c['op']
    ev = {k: v for k, v in c.items() if k not in ('seed',)}
    order = c.get('order')

    nm = Names(rnd.randrange(len(VNAMES)) if c.get('vnames', 'vary') == 'vary' else c.get('vnames'),
               pad=(rnd.randint(460, 1100) if (c.get('pad') or rnd.random() < 0.12) and c.get('notation') != 'lambda' and op != 'strrt' else 0))

    def text(e):
        st = c.get('style', 'sym')
        e = nm.expr(e)
        return render_chain(e) if st == 'chain' else render(e, st, rnd)
    ok_ = rnd.randrange(9)

    def olist(o, j=0):
        return present_order(nm.order(o), (ok_ // 3 if j else ok_))

    def out(fn):
        return obdd_out(fn, nm)
    keep = []
    for ptext, pord in c.get('pre', []):          # diagrams kept alive while the event runs (history in the global heap)
        try:
            keep.append(OBDD(re.sub(r'\b[a-fz]\b', lambda m: nm.c(m.group(0)), ptext), nm.order(pord)))
            keep.append(~keep[-1])
        except Exception:
            pass
    if op == 'build':
        s = text(c['e'])
        ev['text'] = s
        if c['notation'] == 'lambda':
            s = 'lambda %s: %s' % (','.join(nm.order(order)), s)
            _, ev['out'] = out(lambda: OBDD(s))
        else:
            _, ev['out'] = out(lambda: OBDD(s, olist(order)))
    elif op in ('binop', 'not', 'restrict'):
        a, oa = out(lambda: OBDD(text(c['e1']), olist(order)))
        if a is None:
            ev['out'] = oa
        elif op == 'binop':
            b, ob = out(lambda: OBDD(text(c['e2']), olist(order, 1)))
            if b is None:
                ev['out'] = ob
            else:
                _, ev['out'] = out(lambda: (a & b) if c['bop'] == 'and' else (a | b) if c['bop'] == 'or' else (a ^ b))
        elif op == 'not':
            _, ev['out'] = out(lambda: ~a)
        else:
            _, ev['out'] = out(lambda: a.restrict(nm.c(c['v']), c['b'] if rnd.random() < 0.5 else int(c['b'])))
    elif op == 'mixorder':
        def run():
            a = OBDD(nm.c(c['t1']), olist(c['order1']))
            b = OBDD(nm.c(c['t2']), olist(c['order2'], 1))
            return (a & b) if c['bop'] == 'and' else (a | b) if c['bop'] == 'or' else (a ^ b)
        _, ev['out'] = out(run)
    elif op == 'strrt':
        if c.get('notation') == 'lambda':
            o, ev['base'] = out(lambda: OBDD('lambda %s: %s' % (','.join(nm.order(order)), text(c['e']))))
        else:
            o, ev['base'] = out(lambda: OBDD(text(c['e']), olist(order)))
        if o is not None and ok_ % 3 == 1:
            # the same diagram built by hand from BDDNode(var, low, high) calls (hash-consing must find every node again)
            o, ev['base'] = out(lambda: OBDD(rebuild(o.root), o.ordering, check_ordering=(ok_ < 5)))
        if o is None:
            ev['rt1'] = ev['rt2'] = {'exc': 'base'}
        else:
            ev['printed'] = [str(o.root), str(o)]
            r1, ev['rt1'] = out(lambda: OBDD(str(o.root), o.ordering))
            r2, ev['rt2'] = out(lambda: OBDD(str(o)))
            for r, k in ((r1, 'rt1'), (r2, 'rt2')):
                if r is not None:
                    try:
                        ev[k]['eq'] = bool(r == o) and bool(o == r)
                    except Exception:
                        ev[k]['eq'] = False
    elif op == 'eqpair':
        a, oa = out(lambda: OBDD(text(c['e1']), olist(order)))
        b, ob = out(lambda: OBDD(text(c['e2']), olist(order, 1)))
        if a is None or b is None:
            ev['eq'] = ev['same'] = None
            ev['err'] = [oa, ob]
        else:
            ev['eq'] = bool(a == b)
            ev['same'] = a.root is b.root
    return ev


def rand_expr(rnd, depth, vars_, bad=0.0):
    if depth == 0 or rnd.random() < 0.25:
        r = rnd.random()
        if r < bad:
            return ('bad', rnd.choice(sorted(BAD_TEXT)))
        return ('const', rnd.choice([0, 1])) if r < bad + 0.12 else ('var', rnd.choice(vars_))
    t = rnd.choice(['not', 'and', 'or', 'and', 'or'])
    if t == 'not':
        return ('not', rand_expr(rnd, depth - 1, vars_, bad))
    return (t, rand_expr(rnd, depth - 1, vars_, bad), rand_expr(rnd, depth - 1, vars_, bad))


def all_exprs(depth, vars_):
    cur = [('var', v) for v in vars_] + [('const', 0), ('const', 1)]
    allx = list(cur)
    for _ in range(depth):
        nxt = [('not', e) for e in allx] + [(o, a, b) for o in ('and', 'or') for a in allx for b in allx]
        allx = list(dict.fromkeys(cur + nxt))
    return allx


def run_bool_events(ctx, cases):
    from common import pmap, exc_name
    for i, c in enumerate(cases):
        c['tid'] = i
    events = pmap(bool_event, cases)
    ctx.evaluations += len(events)
    bad = [e for e in events if e['op'] == 'eqpair' and e['eq'] is None]
    events = [e for e in events if not (e['op'] == 'eqpair' and e['eq'] is None)]
    for i, e in enumerate(events):
        e['tid'] = i
    verdicts = ctx.validate('TraceBool.tla', 'Trace.cfg', events)
    for tid, v in sorted(verdicts.items()):
        ev = events[tid]
        ctx.violation('%s: %s; %s' % (ev['op'], v['v'], json.dumps({k: ev[k] for k in ev if k != 'tid'})[:700]),
                      {'case': {k: ev[k] for k in ev if k in ('op', 'notation', 'order', 'e', 'e1', 'e2', 'bop', 'v', 'b', 'style', 'order1', 'order2', 't1', 't2')},
                       'event': ev, 'verdict': v})
    for e in bad[:5]:
        ctx.violation('eqpair: operand construction failed: ' + json.dumps(e)[:400], {'case': e, 'event': e})
    return events


def replay_bool(ctx, path):
    obj = json.load(open(path))
    c = obj['case']['case']
    for k in ('e', 'e1', 'e2'):
        if k in c:
            c[k] = pymc.T(c[k])
    events = run_bool_events(ctx, [c])
    ctx.log('replayed: ' + json.dumps(events[0] if events else None)[:600])


def run_fresh(ctx, preamble, kind, cases):
    """run the cases in a fresh interpreter after `preamble` (see fresh_worker.py)"""
    import os, subprocess, sys
    from common import MachineryError
    cf = os.path.join(ctx.tmp, 'fresh_%s_%s.json' % (kind, preamble))
    of = cf + '.out'
    json.dump(cases, open(cf, 'w'))
    p = subprocess.run([sys.executable, os.path.join(os.path.dirname(os.path.abspath(__file__)), 'fresh_worker.py'), preamble, kind, cf, of],
                       stdout=subprocess.PIPE, stderr=subprocess.STDOUT, text=True, timeout=3000)
    if p.returncode != 0:
        raise MachineryError('fresh worker failed: ' + p.stdout[-500:])
    return json.load(open(of))
