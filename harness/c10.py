"""C10 - parsers reject text outside their language with a positioned ParserError."""
import json

import pymc
import synfam
from synfam import formulas_of, rand_formula, tokenise

LANGN = ['PL', 'CTL', 'LTL', 'CTLS']
VOCAB = [['w', x] for x in ('p', 'q', 'true', 'false', 'not', 'or', 'and', 'A', 'E', 'X', 'F', 'G', 'U', 'R', 'r')] + \
        [['s', x] for x in ('~', '|', '&', '-->')] + [['(', '('], [')', ')'], ['e', 'a b'], ['bad', '#'], ['bad', '-'], ['bad', '$']] + \
        [['e', x] for x in ('C:\\xerox', '\\Users\\bob', 'req\\u12', 'say \\"hi\\"', 'a\\\\b', 'tab\\t', '\\N{x', '', 'A', 'p or q')]


def mutate(rnd, toks):
    toks = [list(t) for t in toks]
    k = rnd.choice(['del', 'ins', 'swap', 'rep'])
    if k == 'del' and toks:
        del toks[rnd.randrange(len(toks))]
    elif k == 'ins':
        toks.insert(rnd.randrange(len(toks) + 1), rnd.choice(VOCAB))
    elif k == 'swap' and len(toks) >= 2:
        i = rnd.randrange(len(toks) - 1)
        toks[i], toks[i + 1] = toks[i + 1], toks[i]
    elif toks:
        toks[rnd.randrange(len(toks))] = rnd.choice(VOCAB)
    return toks


def run(ctx):
    q = ctx.quick()
    rnd = ctx.rng
    ctx.rule = ('cases = (logic, token sequence) handed to the logic\'s Parser: every printed formula of every logic cross-fed to all four '
                'parsers, single-token deletions / insertions / swaps / replacements of valid strings <=12 tokens, random token sequences '
                '<=8 tokens over the full vocabulary incl. illegal characters, the documented near-miss strings, empty and blank input; '
                'outcome must be a formula of exactly that logic whose tree is derivable from the tokens by the documented grammar '
                '(Syntax.tla, reserved words readable as keyword or atom), or UnexpectedToken/UnexpectedCharacters with 0<=pos<=len; '
                'distinct_nontrivial = distinct (logic, token sequence) that the parser rejected')
    for m in ('PL', 'LTL', 'CTL', 'CTLS'):
        ctx.model('MC_Syntax.tla', 'Syntax_%s.cfg' % m, timeout=1500)
    cases = []
    valid = []
    for lang in LANGN:
        fam = formulas_of(lang)
        for f in (rnd.sample(fam, min(250, len(fam))) if q else fam):
            try:
                obj = synfam.build(pymc.T(f), pymc.LANGS[lang])
                s = str(obj.cast_to(pymc.CTLS)) if lang == 'CTL' else str(obj)
            except Exception:
                continue
            toks = tokenise(s)
            if len(toks) <= 14:
                valid.append(toks)
            # alternative symbols
            if rnd.random() < 0.3:
                alt = {'not': ['s', '~'], 'or': ['s', '|'], 'and': ['s', '&']}
                valid.append([alt.get(t[1], t) if t[0] == 'w' else t for t in toks])
    valid = [json.loads(x) for x in sorted({json.dumps(t) for t in valid})]
    for toks in valid:
        for lang in LANGN:
            cases.append({'op': 'parse', 'lang': lang, 'toks': toks})
    for toks in (rnd.sample(valid, min(len(valid), 500)) if q else valid):
        if len(toks) <= 12:
            for _ in range(3 if q else 8):
                m = mutate(rnd, toks)
                cases.append({'op': 'parse', 'lang': rnd.choice(LANGN), 'toks': m})
    for _ in range(3000 if q else 100000):
        toks = [rnd.choice(VOCAB) for _ in range(rnd.randint(1, 8))]
        cases.append({'op': 'parse', 'lang': rnd.choice(LANGN), 'toks': toks})
    near = ['A F G q', 'E F q', 'A F A G q', 'p U q U r', 'p or q and r', 'A (p U q', 'A G p)', 'not', 'p and', '( )', 'A', 'X', 'p q',
            'A G (p --> E F q)', 'p -- > q', 'p --> q --> r', '"a" or "b c"', 'A X X p', 'E (p U q) R r', 'true false', 'A(p or q)']
    for s in near:
        for lang in LANGN:
            cases.append({'op': 'parse', 'lang': lang, 'toks': tokenise(s)})
    for s in ['', ' ', '\n', '\t  ']:
        for lang in LANGN:
            cases.append({'op': 'parse', 'lang': lang, 'toks': [], 'text': s})
    # quoted atoms with raw control characters between the quotes: the documented ESCAPED_STRING does not span a line
    # break (such a text has no token at the opening quote), while tabs and other blanks inside the quotes are fine
    raws = ['a\nb', '\n', 'a b\n', 'x\\\ny', 'a\tb', '\t', 'a\rb', 'a  b', 'a\n\nb', 'p\n']
    for toks in rnd.sample(valid, min(len(valid), 150 if q else 1500)):
        idxs = [i for i, t in enumerate(toks) if t[0] == 'w' and t[1] not in ('true', 'false', 'not', 'or', 'and', 'A', 'E', 'X', 'F', 'G', 'U', 'R')]
        if not idxs:
            continue
        i = rnd.choice(idxs)
        text = ' '.join('"%s"' % rnd.choice(raws) if j == i else ('"%s"' % t[1] if t[0] == 'e' else t[1]) for j, t in enumerate(toks))
        for lang in LANGN:
            cases.append({'op': 'parse', 'lang': lang, 'toks': tokenise(text), 'text': text})
    sup = {'PL': ['CTL', 'LTL', 'CTLS'], 'CTL': ['CTLS'], 'LTL': ['CTLS'], 'CTLS': []}
    primed = []
    for toks in rnd.sample(valid, min(len(valid), 40 if q else 300)):
        for lang in ('PL', 'CTL', 'LTL'):
            primed.append({'op': 'parse', 'lang': lang, 'toks': [list(t) for t in toks], 'prime': rnd.choice(sup[lang])})
    for c in cases:
        c['toks'] = [list(t) for t in c['toks']]
    keep = synfam.run_events(ctx, cases)
    # parser-construction histories in a fresh interpreter (a parser targeting another language is built first)
    import os, subprocess, sys
    cf, of = os.path.join(ctx.tmp, 'c10_cases.json'), os.path.join(ctx.tmp, 'c10_out.json')
    json.dump(primed, open(cf, 'w'))
    p = subprocess.run([sys.executable, os.path.join(os.path.dirname(os.path.abspath(__file__)), 'c10_worker.py'), cf, of],
                       stdout=subprocess.PIPE, stderr=subprocess.STDOUT, text=True, timeout=1500)
    if p.returncode != 0:
        from common import MachineryError
        raise MachineryError('c10 worker failed: ' + p.stdout[-400:])
    pev = json.load(open(of))
    for i, e in enumerate(pev):
        e['tid'] = i
    ctx.evaluations += len(pev)
    verdicts = ctx.validate('TraceSyntax.tla', 'TraceSyntax.cfg', pev)
    for tid, v in sorted(verdicts.items()):
        ctx.violation('parse after building a parser for another target language: %s; %s' % (v['v'], json.dumps(pev[tid])[:500]),
                      {'case': {k: pev[tid][k] for k in ('op', 'lang', 'toks', 'prime')}, 'event': pev[tid], 'verdict': v})
    ctx.note('parser_construction_history_events', len(pev))
    acc = rej = 0
    for c, ev in keep:
        if 'exc' in ev['out']:
            rej += 1
            ctx.nontrivial.add(json.dumps([ev['lang'], ev['toks']]))
        else:
            acc += 1
    ctx.note('accepted', acc)
    ctx.note('rejected', rej)
    for c, ev in keep[3:5] + keep[-6:-4]:
        ctx.sample(ev)
    ctx.assumptions.append('the predicate does not demand that a parser accept everything the grammar derives (C09 covers printed formulas), so a stricter-but-correct parser cannot alarm')


def replay(ctx, path):
    synfam.replay(ctx, path)
