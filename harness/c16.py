"""C16 - equal Boolean functions share one OBDD under every creation/GC history."""
import itertools
import json

import gen
import graphfam
import bddfam
from common import MachineryError


def finish(ctx, behs):
    for t, b in enumerate(behs):
        b['trace'] = t
    # the BDD unique table is process-global state: histories run sequentially in this process, each
    # starting from an empty table (checked: live == 0 at the start line is implied by the first projection)
    events = []
    fresh = {}
    for b in behs:
        if b.get('preamble'):
            fresh.setdefault(b['preamble'], []).append(b)
    done = {}
    for pre, bs in fresh.items():           # process-global state: terminals first created from ints / bools / by nodes()
        for b, evs in zip(bs, bddfam.run_fresh(ctx, pre, 'bdd-history', bs)):
            done[b['trace']] = evs
    for b in behs:
        for ev in (done[b['trace']] if b['trace'] in done else bddfam.run_history(b)):
            ev['tid'] = len(events)
            events.append(ev)
    ctx.evaluations += len(events)
    verdicts = ctx.validate('TraceBDD.tla', 'TraceBDD.cfg', events)
    for tid, v in sorted(verdicts.items()):
        ev = events[tid]
        b = behs[ev['trace']]
        if v['v'].startswith('MACHINERY'):
            raise MachineryError(v['v'] + ' ' + json.dumps(ev)[:400])
        ctx.violation('%s: %s at step %d (%s) of history (order %s) %s; projection %s' % (
            b.get('family', ''), v['v'], ev['i'], json.dumps({k: ev[k] for k in ev if k in ('op', 'h', 'h1', 'h2', 'bop', 'v', 'b', 'out')}),
            b['order'], json.dumps(b['calls'])[:500], json.dumps(ev['proj'])[:400]), {'behaviour': b, 'event': {k: ev[k] for k in ev if k != 'proj'}, 'verdict': v})
    return events


def expr_history(rnd, order, nsteps, order2=None):
    """code -> spec: random build/combine/drop history over a pool of up to 8 handles"""
    calls = []
    live, parked = [], []
    hord = {}
    names = ['g%d' % i for i in range(8)]
    for _ in range(nsteps):
        free = [h for h in names if h not in live and h not in parked]
        r = rnd.random()
        if (r < 0.25 or len(live) < 2) and free:
            o = order2 if (order2 and rnd.random() < 0.4) else order
            c = {'op': 'var', 'h': free[0], 'v': rnd.choice(o)} if rnd.random() < 0.85 else {'op': 'const', 'h': free[0], 'b': rnd.random() < 0.5}
            if order2:
                c['order'] = list(o)
            hord[free[0]] = o
            calls.append(c)
            live.append(free[0])
        elif r < 0.6 and free:
            h1 = rnd.choice(live)
            same = [h for h in live if hord[h] == hord[h1]]
            h2 = rnd.choice(same) if rnd.random() < 0.9 else rnd.choice(live)
            calls.append({'op': 'apply', 'bop': rnd.choice(['and', 'or', 'xor']), 'h1': h1, 'h2': h2, 'h': free[0]})
            if hord[h1] == hord[h2]:          # otherwise the call must raise and no handle comes into existence
                hord[free[0]] = hord[h1]
                live.append(free[0])
        elif r < 0.7 and free:
            h1 = rnd.choice(live)
            calls.append({'op': 'not', 'h1': h1, 'h': free[0]})
            hord[free[0]] = hord[h1]
            live.append(free[0])
        elif r < 0.8 and free:
            h1 = rnd.choice(live)
            calls.append({'op': 'restrict', 'h1': h1, 'v': rnd.choice(order), 'b': rnd.random() < 0.5, 'h': free[0]})
            hord[free[0]] = hord[h1]
            live.append(free[0])
        elif r < 0.87 and live:
            h = rnd.choice(live)
            live.remove(h)
            parked.append(h)
            calls.append({'op': 'park', 'h': h})
        elif r < 0.97 and (live or parked):
            h = rnd.choice(live + parked)
            (live if h in live else parked).remove(h)
            calls.append({'op': 'release', 'h': h})
        else:
            calls.append({'op': 'gc'})
    return calls


def run(ctx):
    q = ctx.quick()
    rnd = ctx.rng
    ctx.rule = ('cases = operation histories over a pool of OBDD handles (variable / constant / & | ^ / ~ / restrict / park / release / '
                'gc.collect) replayed on the real package; after every step: structure tree of every held root, number of live nodes, '
                'scan for two live nodes with one (var, low, high), ==/identity for all pairs of held handles vs equality of the denoted '
                'functions; histories from TLC -simulate of BDD.tla (3 variables, 5 handles) and seeded random drivers over <=4 '
                'variables and all orderings; distinct_nontrivial = distinct histories containing a release or park followed by a '
                're-creation of a node')
    ctx.model('MC_BDD.tla', 'BDD_q.cfg', timeout=3000)
    if not q:
        ctx.model('MC_BDD.tla', 'BDD_t.cfg', timeout=3400, heap='24g')
    behs = []
    sim = graphfam.simulate(ctx, 'MC_BDD.tla', 'BDD_sim.cfg', 500 if q else 20000, 14, ctx.seed + 5)
    for calls in sim:
        behs.append({'order': ['a', 'b', 'c'], 'calls': calls, 'family': 'tlc-simulated history', 'build': rnd.choice(['expr', 'node']),
                     'restrict_arg': rnd.choice(['bool', 'int'])})
    orders = [list(p) for n in (2, 3, 4) for p in itertools.permutations(['a', 'b', 'c', 'd'][:n])]
    for _ in range(400 if q else 12000):
        order = rnd.choice(orders)
        behs.append({'order': order, 'calls': expr_history(rnd, order, rnd.randint(12, 30)), 'family': 'random history',
                     'build': rnd.choice(['expr', 'node']), 'restrict_arg': rnd.choice(['bool', 'int'])})
    # several orderings alive in one heap: the unique table is global, nodes are shared across orderings
    for _ in range(300 if q else 8000):
        order = rnd.choice(orders)
        o2 = list(order)
        while o2 == list(order):
            rnd.shuffle(o2)
        if rnd.random() < 0.3:
            o2 = o2 + ['z']
        behs.append({'order': order, 'calls': expr_history(rnd, order, rnd.randint(12, 30), order2=o2), 'family': 'random history, two orderings',
                     'build': rnd.choice(['expr', 'node']), 'restrict_arg': rnd.choice(['bool', 'int'])})
    # the same kind of history in fresh interpreters whose terminal nodes are first created from ints / bools / nodes()
    for pre in ('int-terminals', 'bool-terminals', 'nodes-first'):
        for _ in range(60 if q else 1500):
            order = rnd.choice(orders)
            behs.append({'order': order, 'calls': expr_history(rnd, order, rnd.randint(10, 24)), 'family': 'random history, fresh interpreter (%s)' % pre,
                         'build': rnd.choice(['expr', 'node']), 'restrict_arg': rnd.choice(['bool', 'int']), 'preamble': pre})
    # large heaps: the same kind of history while 150-450 other diagrams over a superset of the variables stay alive
    # (parent indexes of the terminals and of popular nodes get long; size-dependent paths of the unique table are taken)
    for i in range(60 if q else 400):
        order = rnd.choice(orders)
        extra = [v for v in ['a', 'b', 'c', 'd', 'e', 'f'] if v not in order]
        border = list(order) + extra if rnd.random() < 0.5 else rnd.sample(list(order) + extra, len(order) + len(extra))
        behs.append({'order': order, 'calls': expr_history(rnd, order, rnd.randint(12, 30)), 'family': 'random history over a large live heap',
                     'build': rnd.choice(['expr', 'node']), 'restrict_arg': rnd.choice(['bool', 'int']),
                     'ballast': {'order': border, 'n': rnd.choice([50, 100, 150]), 'seed': rnd.randrange(1 << 30)}})
    for b in behs:
        ops = [c['op'] for c in b['calls']]
        if ('release' in ops or 'park' in ops) and len(ops) > 6:
            ctx.nontrivial.add(json.dumps(b['calls']))
    events = finish(ctx, behs)
    ctx.note('histories', {'tlc_simulated': len(sim), 'random': len(behs) - len(sim)})
    ctx.note('max_ballast_nodes', max([e.get('ballast_nodes', 0) for e in events]))
    ctx.note('max_live_nodes_seen', max(e['proj']['live'] for e in events if 'proj' in e))
    ctx.sample({'order': behs[0]['order'], 'calls': behs[0]['calls']})
    ctx.sample({'order': behs[-1]['order'], 'calls': behs[-1]['calls'], 'last_projection': events[-1]['proj']})


def replay(ctx, path):
    obj = json.load(open(path))
    events = finish(ctx, [obj['case']['behaviour']])
    ctx.log('replayed: ' + json.dumps([e.get('out') for e in events])[:500])
