"""Drivers shared by the model-checking properties (C01-C04, C06, C15, C19): turn an abstract
case (K, f, presentation) into a recorded call of the real modelcheck and have TLC judge it."""
import json
import random

from common import MachineryError, pmap, exc_name
import pymc
from pymc import LANGS, to_obj, to_text, mk_kripke, call_mc, T


def build_formula(logic, f, mode):
    """mode 'obj': construct with the logic's own classes; 'text': hand the string to modelcheck
    (its parser builds the object); 'ctls-obj': construct as a CTL* object and let modelcheck cast."""
    if mode == 'text':
        return to_text(f, logic)
    if mode == 'raw':           # constructor shorthand: atoms and Booleans passed as plain str / bool operands
        import synfam
        return synfam.build(f, LANGS[logic], 'raw')
    if mode == 'ctls-obj':
        return to_obj(f, pymc.CTLS)
    return to_obj(f, LANGS[logic])


def project_result(out, index_of):
    if out[0] == 'timeout':
        return {'skipped': 'timeout'}
    if out[0] == 'exc':
        return {'exc': out[1], 'msg': out[2]}
    r = out[1]
    isset = isinstance(r, (set, frozenset))      # an immutable set is a set too (ownership is then trivial)
    try:
        items = list(r)
    except TypeError:
        return {'ret': [], 'isset': False, 'foreign': 1}
    ret, foreign = [], 0
    for s in items:
        try:
            if s in index_of:
                ret.append(index_of[s])
            else:
                foreign += 1
        except TypeError:
            foreign += 1
    return {'ret': sorted(ret), 'isset': isset, 'foreign': foreign}


class CaseTimeout(BaseException):
    pass


def _alarm(signum, frame):
    raise CaseTimeout()


def with_time_limit(fn, seconds):
    """run fn() under a wall-clock limit (the tableau-based checkers are exponential in the number
    of temporal operators); returns ('timeout',) when the limit is hit"""
    import signal
    old = signal.signal(signal.SIGALRM, _alarm)
    signal.setitimer(signal.ITIMER_REAL, seconds)
    try:
        return fn()
    except CaseTimeout:
        return ('timeout',)
    finally:
        signal.setitimer(signal.ITIMER_REAL, 0)
        signal.signal(signal.SIGALRM, old)


CASE_LIMIT_S = 20.0


# atom names are arbitrary strings: a consistent renaming of the atoms in K and in f never changes an answer.  The names
# are chosen to meet the library's own vocabulary: Python's True/False, near-keywords, and (object modes only) reserved words
REN_TEXT = [{'p': 'True'}, {'q': 'False'}, {'p': 'False', 'q': 'True'}, {'p': 'q', 'q': 'p'}, {'p': 'true_', 'q': 'not_q'},
            {'p': 'Ap', 'q': 'EXq'}, {'p': 'None', 'q': 'fairness'}, {'p': 'P', 'q': 'p'}]
REN_OBJ = [{'p': 'A', 'q': 'U'}, {'p': 'true', 'q': 'false'}, {'p': 'or', 'q': 'not'}, {'p': 'p q', 'q': ''}, {'p': '0', 'q': '1'},
           {'p': '\u03c6', 'q': 'caf\u00e9'}, {'p': 'request raised by client ' * 4, 'q': 'request raised by client ' * 4 + '!'},
           {'p': 'p' * 70 + '1', 'q': 'p' * 70 + '2'}]
PLAIN_NAMES = ('p', 'q', 'r')


def _atoms_of(f, acc):
    if f[0] == 'ap':
        acc.add(f[1])
    else:
        for x in f[1:]:
            if isinstance(x, (tuple, list)):
                _atoms_of(x, acc)
    return acc


def _rename(f, ren):
    if f[0] == 'ap':
        return ('ap', ren.get(f[1], f[1]))
    return (f[0],) + tuple(_rename(x, ren) if isinstance(x, (tuple, list)) else x for x in f[1:])


def mc_event(case):
    """case: {tid, logic, K, f, mode, naming, shuf (int|None), cert (int|None), F (list|None)}"""
    rng = random.Random(case['shuf']) if case.get('shuf') is not None else None
    K0 = K = case['K']
    f0 = fr = case['f']
    t0 = case.get('tid', 0)
    ren = case.get('ren')
    if ren is None and t0 % 9 == 4:
        names = _atoms_of(f0, set()) | {a for l in K0['L'] for a in l}
        if names <= set(PLAIN_NAMES):
            pool = REN_TEXT + REN_OBJ        # in text mode names that are not plain identifiers are written quoted (pymc.to_text)
            ren = pool[(t0 // 9) % len(pool)]
    if ren is None and case['logic'] == 'CTLS' and t0 % 9 == 7:
        # an atom named exactly like the auxiliary label the CTL* algorithm generates for a nested quantified subformula
        # ('[' + printed subformula + ']').  Only atoms that label some state are renamed: the generated label must then
        # avoid the clash
        used = {a for l in K0['L'] for a in l}
        subs = []

        def walk(x, top):
            if x[0] in ('A', 'E') and not top:
                subs.append(x)
            for y in x[1:]:
                if isinstance(y, (tuple, list)):
                    walk(y, False)
        walk(f0, True)
        for sub in subs:
            free = sorted((_atoms_of(f0, set()) & used & set(PLAIN_NAMES)) - _atoms_of(sub, set()))
            if free:
                try:
                    ren = {free[0]: '[%s]' % str(to_obj(sub, pymc.CTLS))}
                except Exception:
                    ren = None
                break
    if ren:
        K = dict(K0, L=[sorted(ren.get(a, a) for a in l) for l in K0['L']])
        fr = _rename(f0, ren)
    # initial states are irrelevant to the semantics of modelcheck: vary them (none / some / all)
    t = case.get('tid', 0)
    S0 = case.get('S0')
    if S0 is None:
        S0 = [] if t % 3 == 0 else [i for i in range(K['n']) if (i + t) % 3 == 0] if t % 3 == 1 else [t % K['n']]
    # a structure that is edited between two calls: built without one of its transitions (still total), queried once,
    # completed through the inherited add_edge, and only then asked the recorded question
    late = None
    if case.get('late_edge', t % 13 == 6):
        outdeg = {}
        for a, b in K['R']:
            outdeg[a] = outdeg.get(a, 0) + 1
        cand = [e for e in K['R'] if outdeg[e[0]] > 1]
        if cand:
            late = cand[(t // 13) % len(cand)]
    Kc = dict(K, R=[e for e in K['R'] if e != late]) if late else K
    k, name, index_of = mk_kripke(Kc, case.get('naming', 'int'), rng=rng, S0=S0, relabel=case.get('relabel', t % 7 == 5))
    try:
        formula = build_formula(case['logic'], fr, case.get('mode', 'obj'))
    except Exception as ex:       # constructing a well-formed formula must not fail
        out = ('exc', 'construct:' + exc_name(ex), str(ex)[:200])
    else:
        F = case.get('F')
        Fa = pymc.present_F(F, name, rng)
        if late:
            warm = with_time_limit(lambda: call_mc(case['logic'], k, formula, F=Fa), case.get('limit', CASE_LIMIT_S))
            k.add_edge(name(late[0]), name(late[1]))
            if isinstance(formula, str) or case.get('mode', 'obj') == 'text':
                pass
            elif (t // 13) % 2:
                formula = build_formula(case['logic'], fr, case.get('mode', 'obj'))     # a fresh object for the second call
        out = with_time_limit(lambda: call_mc(case['logic'], k, formula, F=Fa), case.get('limit', CASE_LIMIT_S))
    ev = {'tid': case['tid'], 'logic': case['logic'], 'n': K0['n'], 'R': K0['R'], 'L': K0['L'],
          'f': f0, 'out': project_result(out, index_of)}
    if ren:
        ev['ren'] = ren
    if late:
        ev['late_edge'] = late
    if case.get('cert'):
        ev['cert'] = case['cert']
    if case.get('F') is not None:
        ev['F'] = case['F']
    return ev


def nontrivial_key(case, ev):
    o = ev['out']
    if 'ret' in o and 0 < len(o['ret']) < ev['n']:
        return json.dumps([case['K'], case['f']], sort_keys=True)
    return None


def run_families(ctx, fams, module='TraceSem.tla', cfg='Trace.cfg', event_fn=None):
    """fams: list of (name, cases).  One driver pass and one batched TLC validation for all."""
    cases = []
    for name, fam in fams:
        for c in fam:
            c = dict(c)
            c['family'] = name
            cases.append(c)
        ctx.count('cases_' + name, len(fam))
    events, bad = run_cases(ctx, cases, module=module, cfg=cfg, event_fn=event_fn)
    for name, _ in fams:
        report(ctx, [b for b in bad if b[0]['family'] == name], name)
    return events, bad


def run_cases(ctx, cases, module='TraceSem.tla', cfg='Trace.cfg', family='', nshards=16, procs=16, event_fn=None):
    """Execute the cases on the real code, validate all events with TLC, report verdicts."""
    for i, c in enumerate(cases):
        c['tid'] = i
        c['f'] = T(c['f'])
    events = pmap(event_fn or mc_event, cases, procs=procs)
    for c, ev in zip(cases, events):
        k = nontrivial_key(c, ev)
        if k:
            ctx.nontrivial.add(k)
    ctx.evaluations += len(events)
    nskip = sum(1 for ev in events if 'skipped' in ev['out'])
    if nskip:
        ctx.count('skipped_timeouts', nskip)
        ctx.log('%d of %d cases hit the per-case time limit and are recorded as skipped (never as passed)' % (nskip, len(events)))
    if family:
        ctx.count('cases_' + family, len(events))
    seen = set()
    for c, ev in zip(cases, events):
        fam = c.get('family', family)
        if fam not in seen:
            seen.add(fam)
            ctx.sample({'family': fam, 'event': ev}, limit=12)
    import os
    if os.environ.get('PYMC_VERIF_DUMP'):
        with open(os.environ['PYMC_VERIF_DUMP'], 'a') as fh:
            for ev in events:
                fh.write(json.dumps(ev) + '\n')
    verdicts = ctx.validate(module, cfg, events, nshards=nshards)
    out = []
    for tid, v in sorted(verdicts.items()):
        c, ev = cases[tid], events[tid]
        if v['v'].startswith('ORACLE'):
            raise MachineryError('oracle self-disagreement (%s) on %s' % (v['v'], json.dumps(ev)))
        out.append((c, ev, v))
    return events, out


def report(ctx, bad, family):
    for c, ev, v in bad:
        what = '%s %s.modelcheck: %s; K=%s f=%s got=%s expected=%s' % (
            family, ev['logic'], v['v'], json.dumps({'n': ev['n'], 'R': ev['R'], 'L': ev['L']}),
            json.dumps(ev['f']), json.dumps(ev['out']), json.dumps(v.get('exp')))
        ctx.violation(what, {'family': family, 'case': c, 'event': ev, 'verdict': v})


def replay_cases(ctx, path, module='TraceSem.tla', cfg='Trace.cfg'):
    obj = json.load(open(path))
    case = obj['case']['case']
    events, bad = run_cases(ctx, [case], module=module, cfg=cfg, family='replay', nshards=1, procs=1)
    ctx.log('replayed event: ' + json.dumps(events[0]))
    report(ctx, bad, 'replay')


# ---------------------------------------------------------------- Layer-B bindings (diagnostic)
def ctl_memo_events(case):
    """Runs CTL.modelcheck with a wrapper around the module-level _checkStateFormula and returns one
    mc-event per MEMO ENTRY (formula tree -> labelled set) of the outermost call, so that TLC can check that
    every entry of the labelling table - not only the returned one - is the exact satisfaction set."""
    cm = pymc.CTL.model_checking
    if not hasattr(cm, '_checkStateFormula'):
        return None
    K = case['K']
    k, name, index_of = mk_kripke(K, case.get('naming', 'int'))
    formula = to_obj(T(case['f']), pymc.CTL)
    orig = cm._checkStateFormula
    seen = {'L': None, 'depth': 0}

    def probe(kripke, f, L):
        if seen['depth'] == 0:
            seen['L'] = L
        seen['depth'] += 1
        try:
            return orig(kripke, f, L)
        finally:
            seen['depth'] -= 1
    cm._checkStateFormula = probe
    try:
        with pymc.quiet():
            pymc.CTL.modelcheck(k, formula)
    except Exception:
        return []
    finally:
        cm._checkStateFormula = orig
    evs = []
    L = seen['L'] or {}
    for key, val in list(L.items()):
        try:
            tree = pymc.to_tree(key)
            ret = sorted(index_of[s] for s in val)
        except Exception:
            return [{'drift': 'memo entry not projectable'}]
        if '?' in json.dumps(tree):
            return [{'drift': 'memo keys are not formulas'}]     # the mechanism changed: nothing to validate
        evs.append({'logic': 'CTL', 'n': K['n'], 'R': K['R'], 'L': K['L'], 'f': tree,
                    'out': {'ret': ret, 'isset': True, 'foreign': 0}})
    return evs


def ltl_atoms_events(case):
    """Wraps LTL.model_checking._build_atoms and returns the closure and the atom list of one call for
    TraceAtoms.tla (local consistency of every tableau atom)."""
    lm = pymc.LTL.model_checking
    if not hasattr(lm, '_build_atoms'):
        return None
    K = case['K']
    k, name, index_of = mk_kripke(K, case.get('naming', 'int'))
    formula = to_obj(T(case['f']), pymc.LTL)
    orig = lm._build_atoms
    got = {}

    def probe(Kr, closure):
        atoms = orig(Kr, closure)
        got['closure'] = [pymc.to_tree(f) for f in closure]
        got['atoms'] = [[index_of[a.state], [pymc.to_tree(f) for f in a]] for a in atoms]
        return atoms
    lm._build_atoms = probe
    try:
        out = with_time_limit(lambda: call_mc('LTL', k, formula), 10.0)
    finally:
        lm._build_atoms = orig
    if 'atoms' not in got or len(got['atoms']) > 400:
        return []
    return [{'n': K['n'], 'R': K['R'], 'L': K['L'], 'f': case['f'], 'closure': got['closure'], 'atoms': got['atoms']}]
