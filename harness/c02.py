"""C02 - LTL model checking returns exactly the states whose every path satisfies g."""
import json

import gen
import bigfam
import mcfam
from gen import P, Q, TR, FA, L0, M0


def run(ctx):
    q = ctx.quick()
    rnd = ctx.rng
    ctx.rule = ('cases = (Kripke structure, LTL formula A g) presented to LTL.modelcheck; families: all structures <=2 states '
                'x all path formulas up to a node bound, 3-state catalogue x formulas, <=3 temporal operators at depth 3 sampled, '
                'seeded random <=5 states; every excluded state of events with <=3 states is certified by a concrete lasso '
                '(ExistsLasso, the documentation semantics); distinct_nontrivial = distinct (K,g) with answer neither empty nor all')
    # R2: tableau semantics = documentation semantics on lassos
    ctx.model('MC_Sem.tla', 'MC_Sem_path1.cfg', timeout=1500)
    if not q:
        ctx.model('MC_Sem.tla', 'MC_Sem_path2.cfg', timeout=3000)
    # R1: Layer B - closure / atom construction / tableau / self-fulfilling SCCs as coded, every processing order
    ctx.model('MC_LTLAlgo.tla', 'LTLAlgo_q.cfg' if q else 'LTLAlgo_t.cfg', timeout=3000)

    forms3 = gen.path_formulas_upto(3)
    forms4 = gen.path_formulas_upto(4)
    k2 = gen.small_scope(2)
    cat = gen.catalogue(40)
    fams = []
    if q:
        fam_a = [{'K': K, 'f': ('A', g)} for K in k2 for g in forms3]
        fam_a += [{'K': rnd.choice(k2), 'f': ('A', g)} for g in gen.samp(rnd, forms4, 1200)]
        fam_b = [{'K': rnd.choice(cat), 'f': ('A', g)} for g in gen.samp(rnd, forms4, 1200)]
    else:
        fam_a = [{'K': K, 'f': ('A', g)} for K in k2 for g in forms4]
        fam_b = [{'K': K, 'f': ('A', g)} for K in cat for g in forms4]
        ctx.exhaustive = True
    for c in fam_a:
        c['cert'] = 4
    for c in fam_b:
        c['cert'] = 5
    # deeper formulas: <=3 temporal operators, depth 3, sampled
    fam_c = []
    scope3 = gen.small_scope(3)
    while len(fam_c) < (800 if q else 20000):
        g = gen.rand_path(rnd, 3, leaves=[P, Q, P, Q, TR, FA])
        if gen.temporal_count(g) <= 3 and gen.size(g) <= 9:
            K = rnd.choice(scope3)
            fam_c.append({'K': K, 'f': ('A', g), 'cert': 4 if K['n'] <= 2 else 5})
    fam_d = []
    while len(fam_d) < (800 if q else 20000):
        g = gen.rand_path(rnd, rnd.choice([2, 3]), leaves=L0)
        if gen.temporal_count(g) <= 3 and gen.size(g) <= 8:
            n = rnd.choice([3, 4, 4, 5])
            fam_d.append({'K': gen.rand_kripke(rnd, n), 'f': ('A', g), 'naming': rnd.choice(['int', 'str', 'tuple', 'obj']),
                          'shuf': rnd.randrange(1 << 30)})
    # liveness over every 3-state structure with one atom (SCC-shape sensitive: ears, cross edges)
    live = [('F', ('G', P)), ('F', ('G', ('not', P))), ('G', ('F', P)), ('G', ('F', ('not', P))), ('U', P, ('G', ('not', P))),
            ('R', P, ('F', P)), ('imp', ('G', ('F', P)), ('F', ('G', P))), ('or', ('F', ('G', P)), ('G', ('F', ('not', P))))]
    k3p = [K for K in gen.small_scope(3, atoms=('p',)) if K['n'] == 3]
    fam_l = [{'K': K, 'f': ('A', g), 'cert': 5} for K in k3p for g in (live[:4] if q else live)]
    # one temporal subformula occurring twice with different polarities (shared closure entries)
    shp = gen.shared_polarity_formulas()
    k12 = [K for K in gen.small_scope(2, atoms=('p', 'q'))]
    fam_s = [{'K': rnd.choice(k12 + cat), 'f': ('A', g), 'cert': 5} for g in shp for _ in range(2 if q else 12)]
    # n-ary and/or (arity 3-4)
    temporal = [g for g in gen.path_un(M0) + gen.path_bi(M0) if g[0] in 'XFGUR']
    temporal += [('not', g) for g in temporal[:10]] + [(o, g) for o in 'XFG' for g in temporal[:6]]
    fam_n = []
    for _ in range(1200 if q else 30000):
        ops = [rnd.choice(temporal) if rnd.random() < 0.6 else rnd.choice(M0 + [TR, FA]) for _ in range(rnd.choice([3, 3, 4]))]
        g = (rnd.choice(['and', 'or']),) + tuple(ops)
        if rnd.random() < 0.2:
            g = (rnd.choice(['not', 'X', 'F', 'G']), g)
        K = rnd.choice(scope3)
        if gen.temporal_count(g) <= 4:
            fam_n.append({'K': K, 'f': ('A', g), 'cert': 4 if K['n'] <= 2 else 5})
    fam_e = [dict(c, mode=rnd.choice(['text', 'raw', 'raw'])) for c in gen.samp(rnd, fam_a + fam_n + fam_l, 1500 if q else 20000)]
    # tall formulas (nesting height 100-140, few temporal operators): a specification folded from many requirements
    fam_t = [{'K': rnd.choice(scope3), 'f': ('A', gen.tall_path(rnd, rnd.randint(98, 140))), 'late_edge': False} for _ in range(24 if q else 80)]
    fam_r = []
    for _ in range(500 if q else 10000):
        r = rnd.random()
        K = gen.multi_core_kripke(rnd)[0] if r < 0.35 else gen.core_tail_kripke(rnd)[0] if r < 0.6 else gen.rand_kripke(rnd, rnd.choice([4, 5, 6]), density=rnd.choice([0.2, 0.3]))
        g = gen.recurrence_formulas(rnd)
        if gen.temporal_count(g) <= 4 and len(fam_r) < (250 if q else 2000):
            fam_r.append({'K': K, 'f': ('A', g)})
    for fam in (fam_a, fam_b, fam_c, fam_d, fam_e, fam_n, fam_l, fam_s, fam_t, fam_r):
        for c in fam:
            c['logic'] = 'LTL'
    # Layer-B binding (diagnostic): local consistency of the tableau atoms the real _build_atoms produced
    from common import pmap
    lists = pmap(mcfam.ltl_atoms_events, [dict(c, logic='LTL') for c in rnd.sample(fam_a + fam_l + fam_n, 800 if q else 12000)])
    if any(x is None for x in lists):
        ctx.note('mechanism_binding', 'drift(_build_atoms no longer exists)')
    else:
        aev = []
        for evs in lists:
            for e in evs:
                e['tid'] = len(aev)
                aev.append(e)
        drift = ctx.validate('TraceAtoms.tla', 'Trace.cfg', aev)
        ctx.note('atom_lists_validated', len(aev))
        ctx.note('mechanism_binding', 'ok' if not drift else 'drift(_build_atoms): %d of %d atom lists contain a locally inconsistent atom' % (len(drift), len(aev)))
        if drift:
            ctx.log('mechanism drift (diagnostic only): ' + json.dumps(sorted(drift.items())[0][1])[:400])
    events, bad = mcfam.run_families(ctx, [('scope2', fam_a), ('catalogue3', fam_b), ('deep', fam_c), ('liveness3', fam_l), ('shared-polarity', fam_s), ('nary', fam_n), ('random', fam_d),
                                           ('text', fam_e), ('tall', fam_t), ('recurrence', fam_r)])
    # large lassos (LargeShapes.tla): structures with more than a thousand states, answers by closed forms
    bigfam.run_big(ctx, bigfam.cases(rnd, ['mc'], 3 if q else 30, logics=('LTL',)))


def replay(ctx, path):
    if bigfam.maybe_replay(ctx, path):
        return
    mcfam.replay_cases(ctx, path)
