"""C05 - rewriting to the restricted syntax and LNot preserve meaning."""
import json

import gen
import pymc
from pymc import T, to_obj, to_tree, LANGS
from common import pmap, MachineryError, exc_name
from gen import P, Q, TR, FA, L0, M0


def rewrite_event(c):
    """c: {tid, op, logic, kind, f}"""
    Lang = LANGS[c['logic']]
    ev = {'tid': c['tid'], 'op': c['op'], 'logic': c['logic'], 'kind': c['kind'], 'f': c['f'], 'style': c.get('style', 'obj')}
    try:
        import synfam
        obj = synfam.build(T(c['f']), Lang, c.get('style', 'obj'))
        ev['f'] = to_tree(obj)          # the input is the object as the library itself reads it (class names, subformulas(), name)
        if c['op'] == 'restrict':
            g = obj.get_equivalent_restricted_formula()
        else:
            g = Lang.LNot(obj) if hasattr(Lang, 'LNot') else pymc.pyModelChecking.language.LNot(obj)
        ev['g'] = to_tree(g)
        ev['glang'] = pymc.lang_of(g)
    except (KeyboardInterrupt, SystemExit, MemoryError):
        raise
    except BaseException as ex:
        ev['exc'] = exc_name(ex)
        ev['g'] = ['false']
    return ev


def rename(f, m):
    if f[0] == 'ap':
        return ('ap', m.get(f[1], f[1]))
    return (f[0],) + tuple(rename(x, m) if isinstance(x, (tuple, list)) else x for x in f[1:])


def nots(f, k):
    for _ in range(k):
        f = ('not', f)
    return f


def run(ctx):
    q = ctx.quick()
    rnd = ctx.rng
    ctx.rule = ('cases = formulas of CTL (state), LTL (path) and CTL* (state and path) rewritten by the code with '
                'get_equivalent_restricted_formula() and LNot; the resulting tree is the event; TLC decides alphabet membership '
                'syntactically and equivalence on every Kripke structure with <=2 states over {p,q} (state formulas) and every lasso '
                'word up to the length bound (path formulas); all formulas to depth 2 (sampled in quick) incl. n-ary and/or and 0-4 '
                'leading negations; distinct_nontrivial = distinct formulas whose rewriting differs from the input')
    ctx.model('MC_Rewrite.tla', 'Rewrite_q.cfg' if q else 'Rewrite_t.cfg', timeout=3000)
    cases = []
    nary = [('and', P, Q, ('not', P)), ('or', FA, Q, P), ('and', TR, P, Q, Q), ('or', ('not', Q), P, ('and', P, Q, TR))]
    # CTL state formulas
    ctl1 = gen.dedup(L0 + gen.ctl_q(L0) + gen.bool1(L0))
    ctlm = gen.dedup(M0 + [FA] + gen.ctl_q(M0)[:20] + [('not', P)] + nary[:2])
    ctl2 = gen.ctl_q(ctlm) + gen.bool1(gen.ctl_q(M0)) + [(o,) + tuple(x) for o in ('and', 'or') for x in [(gen.ctl_q([P])[i], Q, gen.ctl_q([Q])[j]) for i in range(10) for j in range(0, 10, 3)]]
    ctl = ctl1 + (gen.samp(rnd, ctl2, 250) if q else ctl2)
    for f in ctl:
        cases.append({'op': 'restrict', 'logic': 'CTL', 'kind': 'state', 'f': f})
        cases.append({'op': 'restrict', 'logic': 'CTLS', 'kind': 'state', 'f': f})
    # LTL / CTL* path formulas
    p1 = gen.dedup(L0 + gen.path_un(L0) + gen.path_bi(L0))
    pm = gen.dedup(M0 + [FA] + gen.path_un(M0) + gen.path_bi(M0)[:12] + nary)
    p2 = gen.path_un(pm) + gen.path_bi(pm)
    paths = p1 + (gen.samp(rnd, p2, 250) if q else p2)
    for f in paths:
        cases.append({'op': 'restrict', 'logic': 'LTL', 'kind': 'path', 'f': f})
        cases.append({'op': 'restrict', 'logic': 'CTLS', 'kind': 'path', 'f': f})
    # CTL* with quantifiers over non-CTL path formulas, depth 3 sampled
    for _ in range(120 if q else 6000):
        f = gen.rand_ctls_state(rnd, 2)
        if gen.size(f) <= 10 and gen.temporal_count(f) <= 4:
            cases.append({'op': 'restrict', 'logic': 'CTLS', 'kind': 'state', 'f': f})
    for _ in range(120 if q else 6000):
        f = gen.rand_ctl(rnd, 3)
        if gen.size(f) <= 12:
            cases.append({'op': 'restrict', 'logic': 'CTL', 'kind': 'state', 'f': f})
    # LNot with 0..4 leading negations
    for lg, kind, pool in (('CTL', 'state', ctl1 + ctl2[:60]), ('LTL', 'path', p1 + p2[:60]), ('CTLS', 'path', p1[:80]), ('CTLS', 'state', ctl1[:80])):
        for f in (gen.samp(rnd, pool, 50) if q else pool):
            for k in range(5):
                cases.append({'op': 'lnot', 'logic': lg, 'kind': kind, 'f': nots(f, k)})
    # the same formulas built from plain str/bool operands (constructor shorthand) and with atom names that are
    # case variants of the constants / look like keywords (semantically they are ordinary atoms: renamed back below)
    extra = []
    shallow = [c for c in cases if c['op'] == 'restrict' and gen.size(T(c['f'])) <= 7]
    for c in rnd.sample(shallow, min(len(shallow), 500 if q else 12000)):
        extra.append(dict(c, style='raw'))
        extra.append(dict(c, style=rnd.choice(['strsub', 'rewrap', 'ops'])))
    odds = [{'p': 'False', 'q': 'tRue'}, {'p': 'True', 'q': 'x'}, {'p': 'None', 'q': 'Until'}, {'p': 'a', 'q': 'FALSE'}]
    for lg, kind, leaf in (('CTL', 'state', P), ('LTL', 'path', P), ('CTLS', 'state', TR), ('CTLS', 'path', ('X', Q)), ('LTL', 'path', ('U', P, Q)),
                           ('CTL', 'state', ('and', P, Q)), ('CTLS', 'state', ('E', ('F', P)))):
        for k in range(0, 9):
            for st in ('obj', 'raw'):
                extra.append({'op': 'lnot', 'logic': lg, 'kind': kind, 'f': nots(leaf, k), 'style': st})
    for i, c in enumerate(rnd.sample(cases, min(len(cases), 400 if q else 8000))):
        odd = odds[i % len(odds)]
        extra.append(dict(c, f=rename(T(c['f']), odd), back={v: k for k, v in odd.items()}, style=rnd.choice(['obj', 'raw'])))
    # two temporal operators over a VACUOUS until / release (a constant operand makes the binary operator collapse: false U x
    # is x, true U x is F x, x R false is false, ...), plain and negated: rewriting rules that recognise an "eventually" or
    # "always" by its shape must not take these for one
    chains = []
    for o1 in ('F', 'G', 'X'):
        for o2 in ('F', 'G', 'X'):
            for x in (P, ('not', P)):
                for core in (('U', FA, x), ('R', TR, x), ('U', x, TR), ('R', x, FA), ('U', TR, x), ('R', FA, x)):
                    chains.append((o1, (o2, core)))
                    chains.append((o1, (o2, ('not', core))))
    for g in (chains if q else chains + [('not', g) for g in chains]):
        extra.append({'op': 'restrict', 'logic': 'LTL', 'kind': 'path', 'f': g})
        if rnd.random() < 0.15:
            extra.append({'op': 'restrict', 'logic': 'CTLS', 'kind': 'path', 'f': g})
    cases += extra
    for i, c in enumerate(cases):
        c['tid'] = i
        c['f'] = T(c['f'])
    events = pmap(rewrite_event, cases)
    for c, e in zip(cases, events):
        if c.get('back'):          # judge over {p,q}: consistent renaming does not change meaning or alphabet
            e['f'] = rename(T(e['f']), c['back'])
            if 'g' in e:
                e['g'] = rename(T(e['g']), c['back'])
            e['renamed'] = 1
    ctx.evaluations += len(events)
    wrongmod = [e for e, c in zip(events, cases) if 'exc' not in e and e.get('glang') != c['logic']]
    verdicts = ctx.validate('TraceRewrite.tla', 'TraceRewrite_q.cfg' if q else 'TraceRewrite_t.cfg', events)
    for tid, v in sorted(verdicts.items()):
        c, ev = cases[tid], events[tid]
        ctx.violation('%s %s %s: %s; f=%s result=%s' % (ev['op'], ev['logic'], ev['kind'], v['v'], json.dumps(ev['f']), json.dumps(ev.get('g'))),
                      {'case': c, 'event': ev, 'verdict': v})
    for e in wrongmod[:5]:
        ctx.violation('rewriting returned a formula of another logic (%s) for %s input %s' % (e.get('glang'), e['logic'], json.dumps(e['f'])),
                      {'case': {'op': e['op'], 'logic': e['logic'], 'kind': e['kind'], 'f': e['f']}, 'event': e})
    for c, e in zip(cases, events):
        if e.get('g') is not None and json.dumps(e['g']) != json.dumps(list_tree(c['f'])):
            ctx.nontrivial.add(json.dumps([c['op'], c['logic'], e['f']]))
    ctx.note('cases_by_op_logic', {k: sum(1 for c in cases if c['op'] + ' ' + c['logic'] == k) for k in sorted({c['op'] + ' ' + c['logic'] for c in cases})})
    ctx.sample(events[5])
    ctx.sample(events[len(events) // 2])
    ctx.sample(events[-1])
    ctx.assumptions.append('equivalence is decided on structures with <=2 states over {p,q} and lasso words of bounded length, not on all models')
    ctx.assumptions.append('LTL state formulas A g are outside this check: LTL has no E, and LTL.A(..).get_equivalent_restricted_formula() raises AttributeError (observation, DESIGN 7)')


def list_tree(f):
    return [list_tree(x) if isinstance(x, tuple) else x for x in f]


def replay(ctx, path):
    obj = json.load(open(path))
    c = obj['case']['case']
    c['tid'] = 0
    ev = rewrite_event(c)
    verdicts = ctx.validate('TraceRewrite.tla', 'TraceRewrite_t.cfg', [ev])
    ctx.log('replayed: ' + json.dumps(ev))
    for tid, v in verdicts.items():
        ctx.violation(v['v'], {'case': c, 'event': ev, 'verdict': v})
