CLAIMED = {
 'C01': dict(
   text='TLC decides every recorded CTL.modelcheck call against the TLA+ semantics (fixpoint SatCTL, cross-checked per event against the CTL* tableau SatStar); the input space is enumerated exhaustively at small scope (every operator on all pairs of state subsets of every total graph <=3 nodes; every structure <=3 states/2 atoms x depth<=1; catalogue x depth 2) and sampled beyond (<=6 states, depth<=4); the labelling algorithm as coded (CTLAlgo) is model-checked against SatCTL for all bottom-up orders.',
   ref='5 C01; 3 Semantics, CTLAlgo',
   note='Trusted: TLC, the TLA+ semantics (three formulations cross-checked by MC_Sem at <=2 states), the harness conversion between abstract values and pyModelChecking objects. Beyond the enumerated scope the guarantee is statistical.',
   technique='TLA+ spec + TLC: exhaustive Layer-B model check and batched trace validation of real calls'),
}
NOT_APPLICABLE = {}
