CLAIMED = {
 'C01': dict(
   text='TLC decides every recorded CTL.modelcheck call against the TLA+ semantics (fixpoint SatCTL, cross-checked per event against the CTL* tableau SatStar); the input space is enumerated exhaustively at small scope (every operator on all pairs of state subsets of every total graph <=3 nodes; every structure <=3 states/2 atoms x depth<=1; catalogue x depth 2) and sampled beyond (<=6 states, depth<=4); the labelling algorithm as coded (CTLAlgo) is model-checked against SatCTL for all bottom-up orders.',
   ref='5 C01; 3 Semantics, CTLAlgo',
   note='Trusted: TLC, the TLA+ semantics (three formulations cross-checked by MC_Sem at <=2 states), the harness conversion between abstract values and pyModelChecking objects. Beyond the enumerated scope the guarantee is statistical.',
   technique='TLA+ spec + TLC: exhaustive Layer-B model check and batched trace validation of real calls'),
 'C02': dict(
   text='TLC decides every recorded LTL.modelcheck call against the CTL* tableau semantics SatStar; every excluded state of events with <=3 states is additionally certified by a concrete lasso evaluated with the transliterated documentation semantics (ExistsLasso), and MC_Sem proves tableau = lasso semantics at <=2 states. Inputs: all structures <=2 states x all path formulas <=4 nodes, a 40-structure 3-state catalogue x the same formulas, sampled formulas with <=3 temporal operators, seeded random <=5 states. The atom construction as coded (LTLAlgo: closure, _build_atoms with the order of equal-height closure formulas nondeterministic, tableau, self-fulfilling SCCs) is model-checked against the semantics for every processing order.',
   ref='5 C02; 3 LTLAlgo; 6 F1 F2',
   note='Trusted: TLC, the TLA+ semantics (cross-checked three ways in MC_Sem), harness conversion. LTLAlgo scope: <=2 states, one atom, restricted formulas of size <=5. Beyond the enumerated scope the guarantee is statistical.',
   technique='TLA+ spec + TLC: exhaustive Layer-B model check (all tie-break orders) and batched trace validation of real calls with lasso certificates'),
}
NOT_APPLICABLE = {}
