"""Regenerates MANIFEST.json from the table below (run by hand after adding a check)."""
import json, os
HERE = os.path.dirname(os.path.dirname(os.path.abspath(__file__)))
props = [json.loads(l) for l in open(os.path.join(HERE, 'properties.jsonl'))]
from manifest_table import CLAIMED, NOT_APPLICABLE
# presentation dimensions added by the seeded rounds (DESIGN I.8), varied by every check of the family
SUFFIX = {
    'mc': ' Every call is additionally varied in presentation (DESIGN I.8): state objects (ints, strings, tuples, identity-compared objects), argument containers (list/tuple/set/frozenset/dict view/one-shot iterator), initial states, two-step construction via replace_labelling_function with non-state keys, a user subclass of Kripke, consistent atom renamings (True/False, near-keywords, reserved words, non-ASCII, 70-100 characters, auxiliary-label look-alikes; quoted in text mode), object/text/raw-operand formulas, the legal call forms of modelcheck, a structure completed through add_edge between two calls, formulas of nesting height 100-140.',
    'syn': ' Formulas are built in six construction styles (constructors, raw str/bool operands, parser, overloaded operators, str-subclass names, in-place operand replacement) over atom names that include case variants of constants, keyword prefixes, reserved words and print-colliding names.',
    'graph': ' Nodes are ints, strings, tuples, identity-compared objects, None/falsy values; arguments are given as list/tuple/set/frozenset/dict view/one-shot iterator; histories include partly consumed SCC generators.',
    'bdd': ' Orderings are given as list / ListOrdering / Ordering; abstract variable names are mapped to concrete name pools (names containing one another, numbering past 9, 40-50 characters, non-ASCII, keyword-like) built at run time; histories also run over a ballast of 150-450 live diagrams and in fresh interpreters.',
}
FAMILY = {'C01': 'mc', 'C02': 'mc', 'C03': 'mc', 'C04': 'mc', 'C06': 'mc', 'C07': 'mc', 'C15': 'mc', 'C19': 'mc', 'C05': 'syn', 'C08': 'syn', 'C09': 'syn',
          'C10': 'syn', 'C11': 'syn', 'C12': 'graph', 'C13': 'graph', 'C14': 'graph', 'C16': 'bdd', 'C17': 'bdd', 'C18': 'bdd'}
checks = []
for p in props:
    pid = p['id']
    if pid not in CLAIMED:
        continue
    c = CLAIMED[pid]
    checks.append({
        'property_id': pid,
        'quick_cmd': './check %s --tier quick' % pid,
        'thorough_cmd': './check %s --tier thorough' % pid,
        'evidence_file': 'evidence/%s.json' % pid,
        'replay_cmd_template': './check %s --replay {path}' % pid,
        'engine': 'tlc',
        'level_claimed': {'category': 'model_checking', 'text': c['text'] + SUFFIX[FAMILY[pid]], 'design_ref': c['ref']},
        'level_note': c['note'],
        'technique': c['technique'],
    })
na = [{'property_id': p['id'], 'reason': NOT_APPLICABLE.get(p['id'], 'check not built yet in this session (planned, see DESIGN.md section 5)')}
      for p in props if p['id'] not in CLAIMED]
m = {
    'version': 1,
    'setup_cmd': './setup.sh',
    'hooks': {
        'guard': 'PYMC_VERIF_TRACE',
        'enable': 'no source hooks: the harness imports pyModelChecking from /repo\'s working tree (PYTHONPATH) and observes public calls; PYMC_VERIF_TRACE=1 (set by ./check) only switches harness-side wrappers on',
        'baseline_off_cmd': 'cd /repo && env -u PYMC_VERIF_TRACE /venv/bin/python -m pytest -ra -q -p no:cacheprovider --timeout=900 --continue-on-collection-errors',
        'source_commits': [],
        'add_only': True,
    },
    'engines': [{'name': 'tlc', 'path': 'spec/', 'serves_properties': sorted(CLAIMED),
                 'kind_free_text': 'TLA+ specification (Layer A contract + Layer B algorithm models) checked with TLC; TLC also judges traces recorded from the real code (batched total trace validation) and generates behaviours replayed into it'}],
    'checks': checks,
    'not_applicable': na,
    'notes': 'See DESIGN.md. Exit 0 held / only KNOWN-FINDING lines; 1 VIOLATION lines; 2 machinery failure.',
}
json.dump(m, open(os.path.join(HERE, 'MANIFEST.json'), 'w'), indent=1)
print('claimed', len(checks), 'not_applicable', len(na))
