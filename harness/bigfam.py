"""Large parametric structures (spec/LargeShapes.tla): lassos with thousands of states / nodes presented to the real code;
TraceBig.tla judges the answers by closed forms that MC_LargeShapes checks against the generic semantics for n <= 6."""
import random
from common import exc_name

import pymc
import mcfam
from pymc import NAMINGS

NAMES = {'EFq': ('E', ('F', ('ap', 'q'))), 'EpUq': ('E', ('U', ('ap', 'p'), ('ap', 'q'))), 'EGp': ('E', ('G', ('ap', 'p'))),
         'EXq': ('E', ('X', ('ap', 'q'))), 'EGq': ('E', ('G', ('ap', 'q'))), 'AFp': ('A', ('F', ('ap', 'p'))),
         'AGFq': ('A', ('G', ('F', ('ap', 'q')))), 'AFGq': ('A', ('F', ('G', ('ap', 'q')))),
         'AGEFq': ('A', ('G', ('E', ('F', ('ap', 'q'))))), 'notEGq': ('not', ('E', ('G', ('ap', 'q'))))}
LOGICS = {'CTL': ['EFq', 'EpUq', 'EGp', 'EXq', 'EGq', 'AFp', 'AGEFq', 'notEGq'],
          'LTL': ['AFp', 'AGFq', 'AFGq'],
          'CTLS': ['EFq', 'EpUq', 'EGq', 'AFp', 'AGFq', 'AFGq', 'AGEFq', 'notEGq']}


def lasso_edges(n, b):
    return [(i, i + 1) for i in range(n - 1)] + [(n - 1, b)]


def big_event(c):
    """c: {tid, op, n, b, [m, logic, name], [X], naming, shuf}"""
    rng = random.Random(c.get('shuf', 0))
    naming = c.get('naming', 'int')
    name = (lambda i: i) if naming == 'int' else (lambda i: 's%d' % i) if naming == 'str' else (lambda i: (i, 'x'))
    n, b = c['n'], c['b']
    ev = {k: c[k] for k in c if k not in ('naming', 'shuf', 'limit')}
    V = [name(i) for i in range(n)]
    E = [(name(a), name(d)) for a, d in lasso_edges(n, b)]
    rng.shuffle(V)
    rng.shuffle(E)
    idx = {name(i): i for i in range(n)}

    def guarded(fn):
        try:
            return fn()
        except (KeyboardInterrupt, SystemExit, MemoryError):
            raise
        except BaseException as ex:
            if type(ex).__name__ == 'CaseTimeout':
                raise
            return {'exc': exc_name(ex), 'msg': str(ex)[:80]}
    if c['op'] in ('reach', 'back', 'sccs'):
        def run():
            g = pymc.DiGraph(V=V, E=E)
            if c['op'] == 'reach':
                return {'ret': sorted(idx[v] for v in g.get_reachable_set_from([name(x) for x in c['X']]))}
            if c['op'] == 'back':
                return {'ret': sorted(idx[v] for v in g.get_reversed_graph().get_reachable_set_from(set(name(x) for x in c['X'])))}
            return {'ret': [[idx[v] for v in comp] for comp in pymc.graphmod.compute_SCCs(g)]}
        out = mcfam.with_time_limit(lambda: guarded(run), c.get('limit', 120.0))
        ev['out'] = {'skipped': 'timeout'} if out == ('timeout',) else out
    else:
        m = c['m']
        L = {name(i): set(['p'] if i < m else ['q']) for i in range(n)}
        k = pymc.Kripke(S=V, S0=[name(0)], R=E, L=L)
        f = NAMES[c['name']]
        fo = mcfam.build_formula(c['logic'], f, c.get('mode', 'obj'))
        out = mcfam.with_time_limit(lambda: pymc.call_mc(c['logic'], k, fo), c.get('limit', 120.0))
        ev['out'] = mcfam.project_result(out, idx)
    return ev


def cases(rnd, kinds, count, nrange=(1050, 1600), logics=('CTL',)):
    out = []
    for _ in range(count):
        n = rnd.randint(*nrange)
        b = rnd.choice([0, n - 1, n - rnd.randint(2, 6), rnd.randrange(n), rnd.randrange(n)])
        base = {'n': n, 'b': b, 'naming': rnd.choice(['int', 'str', 'tuple']), 'shuf': rnd.randrange(1 << 30)}
        kind = rnd.choice(kinds)
        if kind == 'mc':
            lg = rnd.choice(logics)
            m = rnd.choice([1, n - 1, rnd.randint(1, n - 1), max(1, min(n - 1, b + rnd.choice([-1, 0, 1])))])
            out.append(dict(base, op='mc', logic=lg, name=rnd.choice(LOGICS[lg]), m=m, mode=rnd.choice(['obj', 'text'])))
        else:
            X = sorted(rnd.sample(range(n), rnd.choice([1, 1, 2]))) if kind != 'sccs' else []
            if kind != 'sccs' and rnd.random() < 0.5:
                X = [0] if kind == 'reach' else [n - 1]
            out.append(dict(base, op=kind, X=X))
    return out


def run_big(ctx, cs, procs=8):
    from common import pmap, exc_name
    import json
    ctx.model('MC_LargeShapes.tla', 'LargeShapes.cfg', timeout=900)      # closed forms = generic definitions for every lasso with n <= 6
    for i, c in enumerate(cs):
        c['tid'] = i
    events = pmap(big_event, cs, procs=procs)
    ctx.evaluations += len(events)
    nskip = sum(1 for e in events if 'skipped' in e['out'])
    if nskip:
        ctx.count('skipped_timeouts', nskip)
    verdicts = ctx.validate('TraceBig.tla', 'Trace.cfg', events)
    for tid, v in sorted(verdicts.items()):
        ev = events[tid]
        brief = {k: ev[k] for k in ev if k not in ('out',)}
        o = ev['out']
        ctx.violation('large lasso (%d states): %s; %s out=%s' % (ev['n'], v['v'], json.dumps(brief)[:300],
                                                                   json.dumps(o if 'ret' not in o else dict(o, ret='%d elements' % len(o['ret'])))[:200]),
                      {'case': {k: cs[tid][k] for k in cs[tid] if k != 'tid'}, 'big': 1, 'event': dict(ev, out=o if 'ret' not in o else dict(o, ret=o['ret'][:50])), 'verdict': v})
    ctx.count('large_lasso_calls', len(events))
    return events


def maybe_replay(ctx, path):
    """replays a stored large-lasso case; returns False when the replay file is of another kind"""
    import json
    obj = json.load(open(path))
    if not obj.get('case', {}).get('big'):
        return False
    ev = run_big(ctx, [dict(obj['case']['case'])])
    ctx.log('replayed: ' + json.dumps({k: ev[0][k] for k in ev[0] if k != 'out'})[:300])
    return True
