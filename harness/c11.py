"""C11 - formula equality, hashing and cloning are coherent."""
import json

import synfam
from synfam import formulas_of, rand_formula

STYLES = ['obj', 'raw', 'parsed', 'ops', 'strsub', 'rewrap']


def run(ctx):
    q = ctx.quick()
    rnd = ctx.rng
    ctx.rule = ('cases = pairs and triples of formulas from the depth<=2 enumeration of each logic (identifier atoms, n-ary and/or), each '
                'built in one of three construction styles (operand objects, plain str/bool operands, parsed from text): ==, both '
                'directions, hash, set and dict behaviour, reflexivity, transitivity; Bool against Python bool; clone() tree, equality, '
                'sharing of mutable nodes (ids of all non-leaf nodes and their operand lists); near-miss pairs (same operands, '
                'regrouped / reordered / different arity) are over-sampled; distinct_nontrivial = distinct unordered pairs with different trees')
    ctx.model('MC_Syntax.tla', 'Syntax_CTLS.cfg', timeout=1500)     # printing is injective on the enumerated family (== goes through str)
    cases = []
    for lang in ('PL', 'LTL', 'CTL', 'CTLS'):
        fam = formulas_of(lang)
        n = 4000 if q else 150000
        for _ in range(n):
            f = rnd.choice(fam)
            g = f if rnd.random() < 0.25 else rnd.choice(fam)
            cases.append({'op': 'eq', 'lang': lang, 'f': f, 'g': g, 'style': rnd.choice(STYLES), 'style2': rnd.choice(STYLES)})
        # near misses: regrouping / reordering / arity of and-or, operand swaps
        nary = [f for f in fam if f[0] in ('and', 'or') and len(f) >= 3]
        for f in nary:
            a = f[1:]
            variants = [(f[0],) + tuple(reversed(a)), (f[0], (f[0],) + a[:2]) + a[2:] if len(a) > 2 else (f[0], a[1], a[0]),
                        (f[0], a[0], (f[0],) + a[1:]) if len(a) > 2 else f, (f[0],) + a + (a[-1],)]
            for g in variants:
                cases.append({'op': 'eq', 'lang': lang, 'f': f, 'g': g, 'style': rnd.choice(STYLES[:2]), 'style2': rnd.choice(STYLES[:2])})
        for f in (rnd.sample(fam, min(300, len(fam))) if q else fam):
            cases.append({'op': 'clone', 'lang': lang, 'f': f, 'style': rnd.choice(STYLES)})
            cases.append({'op': 'eq', 'lang': lang, 'f': f, 'g': f, 'style': 'raw', 'style2': 'parsed'})
            cases.append({'op': 'eq', 'lang': lang, 'f': f, 'g': f, 'style': 'obj', 'style2': 'raw'})
        for _ in range(1500 if q else 40000):
            f, g, h = rnd.choice(fam), rnd.choice(fam), rnd.choice(fam)
            if rnd.random() < 0.6:
                g = f
            if rnd.random() < 0.6:
                h = g
            cases.append({'op': 'trans', 'lang': lang, 'f': f, 'g': g, 'h': h, 'style': rnd.choice(STYLES), 'style2': rnd.choice(STYLES), 'style3': rnd.choice(STYLES)})
        for _ in range(300 if q else 6000):
            f = rand_formula(rnd, lang, rnd.choice([3, 4]), ['p', 'q_1', 'r'])
            cases.append({'op': 'clone', 'lang': lang, 'f': f, 'style': 'obj'})
            cases.append({'op': 'eq', 'lang': lang, 'f': f, 'g': f, 'style': 'obj', 'style2': 'parsed'})
        for b in (True, False):
            cases.append({'op': 'bool', 'lang': lang, 'b': b})
        # confusable leaves: constants vs atoms whose names are case variants of them, near-identical names
        conf = [(('true',), ('ap', 'True')), (('false',), ('ap', 'False')), (('true',), ('ap', 'TRUE')), (('ap', 'p'), ('ap', 'P')),
                (('ap', 'a'), ('ap', 'a_')), (('false',), ('ap', 'false_')), (('ap', 'True'), ('ap', 'true_')), (('true',), ('false',))]
        for x, y in conf:
            ctxs = [lambda z: z, lambda z: ('not', z), lambda z: ('and', z, ('ap', 'p')), lambda z: ('or', ('ap', 'q_1'), z, z)]
            if lang != 'PL' and lang != 'CTL':
                ctxs.append(lambda z: ('X', z))
            if lang == 'CTL':
                ctxs.append(lambda z: ('A', ('G', z)))
            for cx in ctxs:
                for st1, st2 in (('obj', 'obj'), ('obj', 'raw'), ('raw', 'obj')):
                    cases.append({'op': 'eq', 'lang': lang, 'f': cx(x), 'g': cx(y), 'style': st1, 'style2': st2})
                    cases.append({'op': 'eq', 'lang': lang, 'f': cx(y), 'g': cx(x), 'style': st1, 'style2': st2})
    # deep formulas: a tower of unary operators over near-miss n-ary groupings (beyond any small-depth fast path)
    def tower(f, h, lang):
        ops = ['not'] if lang in ('PL', 'CTL') else ['not', 'X', 'G', 'F']
        for i in range(h):
            f = (ops[i % len(ops)], f)
        return f
    a, b, c, d = ('ap', 'p'), ('ap', 'q_1'), ('ap', 'r'), ('true',)
    for lang in ('PL', 'LTL', 'CTL', 'CTLS'):
        for op in ('and', 'or'):
            pairs = [((op, (op, a, b), c, d), (op, (op, a, b, c), d)), ((op, a, (op, b, c)), (op, (op, a, b), c)), ((op, a, b, c), (op, a, (op, b, c)))]
            for h in (60, 150, 230):      # the JSON reader of TLC accepts 255 nesting levels
                for x, y in pairs:
                    cases.append({'op': 'eq', 'lang': lang, 'f': tower(x, h, lang), 'g': tower(y, h, lang), 'style': 'obj', 'style2': 'obj'})
                    cases.append({'op': 'eq', 'lang': lang, 'f': tower(x, h, lang), 'g': tower(x, h, lang), 'style': 'obj', 'style2': 'raw'})
                cases.append({'op': 'clone', 'lang': lang, 'f': tower(pairs[0][0], h, lang), 'style': 'obj'})
    leafpairs = [(('true',), ('false',)), (('true',), ('ap', 'true_')), (('ap', 'p'), ('ap', 'q_1')), (('false',), ('ap', 'p')), (('ap', 'p'), ('ap', 'p'))]
    for lang in ('PL', 'LTL', 'CTL', 'CTLS'):
        for h in (40, 120, 205, 231):
            for x, y in leafpairs:
                for wrap in (lambda z: z, lambda z: ('and', ('ap', 'p'), z), lambda z: ('or', z, ('ap', 'r'), ('true',))):
                    cases.append({'op': 'eq', 'lang': lang, 'f': tower(wrap(x), h, lang), 'g': tower(wrap(y), h, lang), 'style': 'obj', 'style2': rnd.choice(['obj', 'raw'])})
    keep = synfam.run_events(ctx, cases)
    for c, ev in keep:
        if ev['op'] == 'eq' and ev['f'] != ev['g']:
            ctx.nontrivial.add(json.dumps(sorted([json.dumps(ev['f']), json.dumps(ev['g'])])))
    ctx.note('ops', {o: sum(1 for c, ev in keep if ev['op'] == o) for o in ('eq', 'trans', 'clone', 'bool')})
    for c, ev in keep[:2] + keep[-3:]:
        ctx.sample(ev)


def replay(ctx, path):
    synfam.replay(ctx, path)
