"""C13 - reachability, reversal and subgraph extraction are exact and non-destructive."""
import itertools
import json

import gen
import bigfam
import graphfam
from c12 import finish_traces


def ops_trace(E, n, X, rnd, **kw):
    """new; reach(X) (list and set argument); sub(X); rev; rev of rev; clone; mutate the clone and the
    original; read both back"""
    a, b = rnd.randrange(n + 1), rnd.randrange(n + 1)
    calls = [{'op': 'new', 'V': list(range(n)), 'E': E, 'new': 1},
             {'op': 'reach', 'X': X, 'g': 1},
             {'op': 'sub', 'X': X, 'g': 1, 'new': 2},
             {'op': 'rev', 'g': 1, 'new': 3},
             {'op': 'rev', 'g': 3, 'new': 4},
             {'op': 'clone', 'g': 1, 'new': 5},
             {'op': 'add_edge', 's': a, 'd': b, 'g': 5},
             {'op': 'add_node', 'v': n + 1, 'g': 1},
             {'op': 'reach', 'X': X, 'g': 1},
             {'op': 'rev', 'g': 1, 'new': 6},
             {'op': 'edges', 'g': 1},
             {'op': 'nodes', 'g': 5}]
    b_ = {'calls': calls}
    b_.update(kw)
    return b_


def run(ctx):
    q = ctx.quick()
    rnd = ctx.rng
    ctx.rule = ('cases = call histories on DiGraph objects (reach / subgraph / reversed / clone / add_node / add_edge / queries) with the '
                'projection of every pooled object after each call; exhaustive over all digraphs <=3 nodes x all node subsets '
                '(n=4: all graphs x sampled subsets in thorough), random graphs to 12 nodes, TLC-simulated histories; '
                'distinct_nontrivial = distinct (edge set, X) with >=2 edges and non-empty X')
    ctx.model('MC_Digraph.tla', 'Digraph_mc.cfg' if q else 'Digraph_mc3.cfg', timeout=3000, heap='16g')
    behs = []
    for n in (1, 2, 3):
        subsets = [list(c) for r in range(n + 1) for c in itertools.combinations(range(n), r)]
        for E in gen.all_digraphs(n):
            for X in subsets:
                behs.append(ops_trace(E, n, X, rnd, family='exhaustive<=3', naming=rnd.choice(['int', 'str', 'tuple', 'falsy']),
                                      reach_arg=rnd.choice(['list', 'set']), shuf=rnd.randrange(1 << 30)))
    g4 = list(gen.all_digraphs(4))
    sub4 = [list(c) for r in range(5) for c in itertools.combinations(range(4), r)]
    if q:
        g4 = rnd.sample(g4, 1500)
    for E in g4:
        for X in rnd.sample(sub4, 1 if q else 3):
            behs.append(ops_trace(E, 4, X, rnd, family='n=4', naming=rnd.choice(['int', 'str', 'tuple', 'neg', 'falsy']),
                                  reach_arg=rnd.choice(['list', 'set']), shuf=rnd.randrange(1 << 30),
                                  build=rnd.choice(['ctor', 'incr'])))
    ctx.exhaustive = not q
    for i in range(1000 if q else 30000):
        n = rnd.randint(5, 12)
        X = [v for v in range(n) if rnd.random() < 0.3]
        behs.append(ops_trace(gen.rand_digraph(rnd, n), n, X, rnd, family='random<=12', naming=rnd.choice(['int', 'str', 'mixed', 'falsy']),
                              reach_arg=rnd.choice(['list', 'set']), shuf=rnd.randrange(1 << 30)))
    sim = graphfam.simulate(ctx, 'MC_Digraph.tla', 'Digraph_sim.cfg', 600 if q else 12000, 10, ctx.seed + 7)
    for calls in sim:
        behs.append({'calls': calls, 'family': 'tlc-simulated history', 'naming': rnd.choice(['int', 'str']),
                     'reach_arg': rnd.choice(['list', 'set']), 'shuf': rnd.randrange(1 << 30)})
    # code -> spec: longer random histories with repeated queries on the same object
    for i in range(500 if q else 10000):
        n = rnd.randint(3, 6)
        calls = [{'op': 'new', 'V': list(range(rnd.randint(0, n))), 'E': gen.rand_digraph(rnd, n, 0.25), 'new': 1}]
        live = [1]
        for _ in range(rnd.randint(4, 10)):
            g = rnd.choice(live)
            r = rnd.random()
            X = [v for v in range(n) if rnd.random() < 0.4]
            if r < 0.3:
                # only node subsets of the receiver are meaningful for reach; the harness cannot know them
                # without the spec, so it uses nodes it has itself inserted into object 1
                calls.append({'op': 'reach', 'X': [], 'g': g} if g != 1 else {'op': 'nodes', 'g': g})
            elif r < 0.45 and len(live) < 6:
                calls.append({'op': 'rev', 'g': g, 'new': max(live) + 1}); live.append(max(live) + 1)
            elif r < 0.6 and len(live) < 6:
                calls.append({'op': 'sub', 'X': X, 'g': g, 'new': max(live) + 1}); live.append(max(live) + 1)
            elif r < 0.7 and len(live) < 6:
                calls.append({'op': 'clone', 'g': g, 'new': max(live) + 1}); live.append(max(live) + 1)
            elif r < 0.85:
                calls.append({'op': 'add_edge', 's': rnd.randrange(n), 'd': rnd.randrange(n), 'g': g})
            elif r < 0.92:
                calls.append({'op': 'add_node', 'v': rnd.randrange(n + 2), 'g': g})
            else:
                calls.append({'op': rnd.choice(['edges', 'sources', 'sccs']), 'g': g})
        behs.append({'calls': calls, 'family': 'random history', 'naming': rnd.choice(['int', 'str', 'tuple', 'obj']),
                     'shuf': rnd.randrange(1 << 30)})
    fams = {}
    for b in behs:
        fams[b['family']] = fams.get(b['family'], 0) + 1
        c = b['calls']
        if len(c) > 1 and c[1].get('X') and len(c[0].get('E', [])) >= 2:
            ctx.nontrivial.add(json.dumps([sorted(c[0]['E']), c[1]['X']]))
    ctx.note('histories_by_family', fams)
    events, bad = finish_traces(ctx, behs)
    ctx.sample({'history': behs[200]['calls'], 'outcomes': [e['out'] for e in events if e['trace'] == 200]})
    ctx.sample({'tlc_simulated_history': sim[0] if sim else None})
    # large lassos (1050-1600 nodes; thorough up to 4000): size-dependent behaviour (recursion depth, thresholds)
    bigfam.run_big(ctx, bigfam.cases(rnd, ['reach', 'back', 'reach'], 10 if q else 120, nrange=(1050, 1600) if q else (1050, 4000)))


def replay(ctx, path):
    if bigfam.maybe_replay(ctx, path):
        return
    obj = json.load(open(path))
    events, bad = finish_traces(ctx, [obj['case']['behaviour']])
    ctx.log('replayed: ' + json.dumps([e['out'] for e in events])[:500])
