"""C15 - fairness restricts path quantifiers to fair paths."""
import itertools
import json

import gen
import mcfam
import pymc
import libfam
from pymc import T, to_obj, LANGS, call_mc
from common import pmap, MachineryError, exc_name
from gen import P, Q, TR, FA, L0, M0


def fair_event(c):
    """c: {tid, op, logic, K, F, f, naming, shuf, mode}"""
    import random
    rng = random.Random(c.get('shuf', 0))
    K = c['K']
    k, name, idx = pymc.mk_kripke(K, c.get('naming', 'int'), rng=rng if c.get('shuf') is not None else None, S0=[0])
    kb = libfam.proj_kripke(k, idx, None)
    F = pymc.present_F(c['F'], name, rng if c.get('shuf') is not None else random.Random(c.get('tid', 0)))
    ev = {'tid': c['tid'], 'op': c['op'], 'n': K['n'], 'R': K['R'], 'L': K['L'], 'F': c['F']}
    if c['op'] == 'fs':
        def run():
            try:
                return ('ret', k.get_fair_states(F))
            except (KeyboardInterrupt, SystemExit, MemoryError):
                raise
            except BaseException as ex:
                if type(ex).__name__ == 'CaseTimeout':
                    raise
                return ('exc', exc_name(ex), str(ex)[:100])
        out = mcfam.with_time_limit(run, 20.0)
    else:
        ev['logic'] = c['logic']
        ev['f'] = c['f']
        try:
            fo = mcfam.build_formula(c['logic'], T(c['f']), c.get('mode', 'obj'))
        except Exception as ex:
            out = ('exc', 'construct:' + exc_name(ex), str(ex)[:100])
        else:
            out = mcfam.with_time_limit(lambda: call_mc(c['logic'], k, fo, F=F), 20.0)
    ev['out'] = mcfam.project_result(out, idx)
    ev['kb'] = kb
    ev['ka'] = libfam.proj_kripke(k, idx, None)
    return ev


def fair_lists(n, rnd, full=False):
    subs = [list(c) for r in range(n + 1) for c in itertools.combinations(range(n), r)]
    out = [[], [list(range(n))], [[]]]
    if full:
        out += [[a] for a in subs] + [[a, b] for a in subs for b in subs if a < b]
    else:
        out += [[rnd.choice(subs)] for _ in range(2)] + [[rnd.choice(subs), rnd.choice(subs)]]
    # three to five constraints, overlapping and repeated sets included
    k = rnd.choice([3, 3, 4, 5])
    out.append([rnd.choice(subs[1:] or subs) for _ in range(k)])
    out.append([list(range(n))] * k)
    return out


def run(ctx):
    q = ctx.quick()
    rnd = ctx.rng
    ctx.rule = ('cases = get_fair_states(F) and <logic>.modelcheck(K, f, F=F) calls: small-scope structures x lists F of <=2 state sets '
                '(incl. [], [S], [{}]) x depth<=1 formulas of each logic, structures with atoms literally named fair/fair0, seeded random '
                'beyond; clauses: exact fair states, fair semantics of the answer (SatFair), F=None and trivially-true F equal the '
                'unconstrained answer, no exception, K unchanged; wrong answers that a LISTED deviation (KF-1/2/3) reproduces exactly '
                'are reported as KNOWN-FINDING, anything else as VIOLATION; distinct_nontrivial = distinct (K,F,f) whose documented '
                'answer differs from the unconstrained one or whose fair-state set is a proper non-empty subset')
    ctx.model('MC_Sem.tla', 'MC_Sem_fairq.cfg' if q else 'MC_Sem_fair.cfg', timeout=3000)       # oracle: tableau fair semantics = SCC characterisation = LTL encoding
    ctx.model('MC_AsCoded.tla', 'AsCoded_q.cfg' if q else 'AsCoded_t.cfg', timeout=3000)   # design level: which reductions are right
    # the listed deviations must still be deviations of the as-coded model (witnesses of KF-2 and KF-1)
    for cfg, inv, kf in (('AsCoded_kf2.cfg', 'BadReductions', 'KF-2'), ('AsCoded_kf1.cfg', 'KF1Harmless', 'KF-1')):
        res, _ = ctx.model('MC_AsCoded.tla', cfg, timeout=900, expect_ok=False)
        ctx.note('design_level_witness_' + kf, inv in res['violated'])
    cases = []
    scope = gen.small_scope(2) + gen.catalogue(40) if q else gen.small_scope(3)
    d1 = {'CTL': gen.dedup(L0[:3] + gen.ctl_q(M0) + [('not', P), ('and', P, Q)]),
          'LTL': [('A', g) for g in gen.dedup(gen.path_un(M0) + gen.path_bi(M0) + M0)],
          'CTLS': gen.dedup([(qq, g) for qq in 'AE' for g in gen.path_un(M0) + gen.path_bi(M0)] + gen.ctl_q(M0)[:10])}
    for K in scope:
        n = K['n']
        for F in fair_lists(n, rnd, full=(not q and n <= 2)):
            cases.append({'op': 'fs', 'K': K, 'F': F, 'naming': rnd.choice(['int', 'str', 'tuple', 'obj']), 'shuf': rnd.randrange(1 << 30)})
            for lg in ('CTL', 'LTL', 'CTLS'):
                for f in rnd.sample(d1[lg], 2 if q else 6):
                    cases.append({'op': 'mc', 'logic': lg, 'K': K, 'F': F, 'f': f, 'naming': rnd.choice(['int', 'str']),
                                  'shuf': rnd.randrange(1 << 30), 'mode': rnd.choice(['obj', 'obj', 'text'])})
    # structures that already use the names fair / fair0 as ordinary atoms
    for _ in range(300 if q else 5000):
        K = gen.rand_kripke(rnd, rnd.choice([2, 3, 3]), atoms=rnd.choice([('p', 'fair'), ('fair', 'fair0'), ('p', 'fair0')]))
        atoms = sorted({a for l in K['L'] for a in l} | {'p'})
        F = rnd.choice(fair_lists(K['n'], rnd))
        lg = rnd.choice(['CTL', 'CTL', 'LTL', 'CTLS'])
        leaves = [('ap', a) for a in atoms if a in [x for l in K['L'] for x in l]] or [P]
        f = gen.rand_ctl(rnd, 1, leaves=leaves) if lg == 'CTL' else ('A', gen.rand_path(rnd, 1, leaves=leaves)) if lg == 'LTL' else \
            (rnd.choice('AE'), gen.rand_path(rnd, 1, leaves=leaves))
        cases.append({'op': 'mc', 'logic': lg, 'K': K, 'F': F, 'f': f, 'family': 'fair-named atoms'})
    # nested CTL / CTL* formulas on self-loop-rich structures (there the as-coded fair set is non-empty,
    # so the reductions themselves are exercised rather than masked by KF-1)
    inner = gen.ctl_q(M0)
    for _ in range(1500 if q else 30000):
        n = rnd.choice([2, 3, 3, 4])
        K = gen.rand_kripke(rnd, n, density=rnd.choice([0.3, 0.5]))
        K['R'] = [list(e) for e in sorted(set(map(tuple, K['R'])) | {(s, s) for s in range(n) if rnd.random() < 0.85})]
        F = rnd.choice(fair_lists(n, rnd))
        a, b = rnd.choice(inner + M0), rnd.choice(inner + M0)
        f = rnd.choice(gen.ctl_q([a], [b]) + gen.bool1([a], [b]))
        lg = rnd.choice(['CTL', 'CTL', 'CTLS'])
        cases.append({'op': 'mc', 'logic': lg, 'K': K, 'F': F, 'f': f, 'family': 'nested on self-loop-rich K'})
    for _ in range(2500 if q else 40000):
        K, nc = gen.core_tail_kripke(rnd)
        core = list(range(nc))
        F = rnd.choice([[], [core], [[rnd.choice(core)]], [[rnd.choice(core)], [rnd.choice(core)]], [list(range(K['n']))],
                        [[rnd.choice(core)] for _ in range(rnd.choice([3, 4]))], [core, [rnd.choice(core)], core, list(range(K['n']))]])
        a, b = rnd.choice(inner), rnd.choice(inner + M0 + [('not', x) for x in inner[:8]])
        if rnd.random() < 0.5:
            a, b = b, a
        f = rnd.choice(gen.ctl_q([a], [b]))
        if rnd.random() < 0.2:
            f = rnd.choice([('not', f), ('and', f, rnd.choice(M0)), ('or', rnd.choice(inner), f)])
        cases.append({'op': 'mc', 'logic': rnd.choice(['CTL', 'CTL', 'CTLS']), 'K': K, 'F': F, 'f': f, 'family': 'nested on core+tail K'})
        if rnd.random() < 0.35:
            cases.append({'op': 'fs', 'K': K, 'F': F, 'naming': rnd.choice(['int', 'str', 'tuple', 'obj']), 'shuf': rnd.randrange(1 << 30)})
    # several fair-SCC candidates in one structure, constraints that separate them (met by one core, missed by another),
    # in every order of presentation
    for _ in range(700 if q else 12000):
        K, cores = gen.multi_core_kripke(rnd)
        picks = [rnd.choice(c) for c in cores]
        F = rnd.choice([[cores[0]], [cores[-1]], [[picks[0]], [picks[0]]], [[picks[-1]]], [[picks[0], picks[-1]]], [[picks[0]], [picks[-1]]],
                        [cores[0], [picks[0], picks[-1]]], [[]], [list(range(K['n']))], [cores[-1], list(range(K['n']))],
                        [[picks[0], picks[-1]], cores[0] + cores[-1]], [[picks[-1]], [picks[0], picks[-1]], cores[-1]]])
        cases.append({'op': 'fs', 'K': K, 'F': F, 'naming': rnd.choice(['int', 'str', 'tuple', 'obj']), 'shuf': rnd.randrange(1 << 30), 'family': 'several cores'})
        f = rnd.choice([TR, P, ('E', ('F', P)), ('A', ('X', P)), ('E', ('X', Q)), ('E', ('U', P, Q)), ('not', P), ('A', ('G', ('or', P, Q)))])
        cases.append({'op': 'mc', 'logic': rnd.choice(['CTL', 'CTL', 'CTLS']), 'K': K, 'F': F, 'f': f, 'naming': rnd.choice(['int', 'str']),
                      'shuf': rnd.randrange(1 << 30), 'family': 'several cores'})
    # seeded random beyond the scope
    for _ in range(600 if q else 20000):
        K = gen.rand_kripke(rnd, rnd.choice([3, 4, 4]))
        F = rnd.choice(fair_lists(K['n'], rnd))
        cases.append({'op': 'fs', 'K': K, 'F': F, 'naming': rnd.choice(['int', 'str', 'tuple', 'obj']), 'shuf': rnd.randrange(1 << 30)})
        lg = rnd.choice(['CTL', 'LTL', 'CTLS'])
        while True:
            f = gen.rand_ctl(rnd, 2) if lg == 'CTL' else ('A', gen.rand_path(rnd, 2)) if lg == 'LTL' else gen.rand_ctls_state(rnd, 2)
            if gen.temporal_count(f) <= 3 and gen.size(f) <= 9:
                break
        cases.append({'op': 'mc', 'logic': lg, 'K': K, 'F': F, 'f': f, 'naming': rnd.choice(['int', 'str']), 'shuf': rnd.randrange(1 << 30)})
    for i, c in enumerate(cases):
        c['tid'] = i
        if 'f' in c:
            c['f'] = T(c['f'])
    events = pmap(fair_event, cases)
    ctx.evaluations += len(events)
    verdicts = ctx.validate('TraceFair.tla', 'Trace.cfg', events)
    counts = {}
    for tid, v in sorted(verdicts.items()):
        c, ev = cases[tid], events[tid]
        what = '%s%s K=%s F=%s%s got=%s documented=%s' % (
            ev['op'], ' ' + ev.get('logic', '') if ev['op'] == 'mc' else '', json.dumps({'n': ev['n'], 'R': ev['R'], 'L': ev['L']}),
            json.dumps(ev['F']), ' f=' + json.dumps(ev['f']) if 'f' in ev else '', json.dumps(ev['out']), json.dumps(v.get('exp')))
        if v['v'].startswith('ORACLE'):
            raise MachineryError('oracle self-disagreement: ' + what)
        if v['v'].startswith('known:'):
            ctx.known(v['v'][6:], what)
        else:
            ctx.violation(v['v'] + ': ' + what, {'case': c, 'event': ev, 'verdict': v})
        counts[v['v'].split(' ')[0]] = counts.get(v['v'].split(' ')[0], 0) + 1
    ctx.note('verdict_counts', counts)
    ctx.note('conforming_events', len(events) - len(verdicts))
    for c, ev in zip(cases, events):
        o = ev['out']
        if 'ret' in o and 0 < len(o['ret']) < ev['n']:
            ctx.nontrivial.add(json.dumps([c['K'], c['F'], c.get('f')]))
    ctx.sample(events[0])
    ctx.sample(events[1])
    ctx.assumptions.append('known-finding classification uses the as-coded models of AsCoded.tla (validated: every wrong answer of the '
                           'unchanged tree is reproduced exactly); F is a list of sets of states')


def replay(ctx, path):
    obj = json.load(open(path))
    c = obj['case']['case']
    c['tid'] = 0
    ev = fair_event(c)
    verdicts = ctx.validate('TraceFair.tla', 'Trace.cfg', [ev])
    ctx.log('replayed: ' + json.dumps(ev['out']) + ' verdict ' + json.dumps(verdicts.get(0, 'ok')))
    for tid, v in verdicts.items():
        if v['v'].startswith('known:'):
            ctx.known(v['v'][6:], json.dumps(ev)[:300])
        else:
            ctx.violation(v['v'], {'case': c, 'event': ev, 'verdict': v})
