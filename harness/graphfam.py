"""DiGraph histories: step abstract behaviours (from `tlc -simulate` of Digraph.tla, or from the
harness's own generators) through real DiGraph objects and record one event per call with the
outcome and the full projection of every pooled object (spec -> code and code -> spec share
this one path; TraceGraph.tla judges the events)."""
import json
import random
import re
import subprocess
import os

import pymc
from pymc import NAMINGS
from common import SPEC, TLA_CP, MachineryError, exc_name


def project_graph(G, idx):
    try:
        V = sorted(idx[v] for v in G.nodes())
        E = sorted([idx[a], idx[b]] for a, b in G.edges())
        # consistency of the two views of the same object is part of the projection
        return {'V': V, 'E': E}
    except Exception as ex:
        return {'V': [-1], 'E': [], 'error': type(ex).__name__ + ':' + str(ex)[:80]}


def run_behaviour(b):
    """b: {trace, naming, shuf, calls:[...]} -> list of events"""
    name = NAMINGS[b.get('naming', 'int')]
    rng = random.Random(b.get('shuf', 0))
    idx = {name(i): i for i in range(b.get('nmax', 64))}
    pool = {}
    events = []
    suspended = []
    for i, c in enumerate(b['calls']):
        ev = dict(c)
        ev.update({'trace': b['trace'], 'i': i})
        op = c['op']
        out = None
        try:
            if op == 'new':
                V = [name(v) for v in c['V']]
                E = [(name(a), name(b_)) for a, b_ in c['E']]
                if b.get('shuf') is not None:
                    rng.shuffle(V)
                    rng.shuffle(E)
                    V, E = pymc.as_container(V, rng), pymc.as_container(E, rng, pairs=True)
                how = b.get('build', 'ctor')
                if how == 'ctor':
                    g = pymc.DiGraph(V=V, E=E)
                else:               # incremental construction through add_node / add_edge
                    g = pymc.DiGraph()
                    for v in V:
                        g.add_node(v)
                    for a, b_ in E:
                        g.add_edge(a, b_)
                pool[c['new']] = g
                out = {'ret': 'none'}
            elif op == 'drop':
                del pool[c['g']]
                out = {'ret': 'none'}
            else:
                g = pool[c['g']]
                if op == 'add_node':
                    g.add_node(name(c['v']))
                    out = {'ret': 'none'}
                elif op == 'add_edge':
                    g.add_edge(name(c['s']), name(c['d']))
                    out = {'ret': 'none'}
                elif op == 'reach':
                    X = [name(v) for v in c['X']]
                    arg = X if b.get('reach_arg', 'list') == 'list' else set(X)
                    if b.get('shuf') is not None and rng.random() < 0.3:
                        arg = rng.choice([tuple, frozenset])(X)
                    r = g.get_reachable_set_from(arg)
                    out = {'ret': sorted(idx[v] for v in r)}
                    if isinstance(arg, set) and arg != set(X):
                        out = {'ret': [-7]}          # the argument object was modified
                elif op == 'next':
                    out = {'ret': sorted(idx[v] for v in g.next(name(c['v'])))}
                elif op == 'nodes':
                    out = {'ret': sorted(idx[v] for v in g.nodes())}
                elif op == 'edges':
                    out = {'ret': sorted([idx[a], idx[b_]] for a, b_ in g.edges())}
                elif op == 'sources':
                    out = {'ret': sorted(idx[v] for v in g.sources())}
                elif op == 'sccs':
                    out = {'ret': [[idx[v] for v in comp] for comp in pymc.graphmod.compute_SCCs(g)]}
                elif op == 'sccs_some':
                    it = pymc.graphmod.compute_SCCs(g)
                    comps = []
                    for _ in range(c['k']):
                        try:
                            comps.append([idx[v] for v in next(it)])
                        except StopIteration:
                            break
                    if c.get('hold', i % 2 == 0):
                        suspended.append(it)         # left suspended for the rest of the history
                    del it                           # otherwise abandoned here (closed by the garbage collector)
                    out = {'ret': comps}
                elif op == 'rev':
                    n = g.get_reversed_graph()
                    pool[c['new']] = n
                    out = {'ret': project_graph(n, idx)}
                elif op == 'sub':
                    n = g.get_subgraph(pymc.as_container([name(v) for v in c['X']], rng if b.get('shuf') is not None else None))
                    pool[c['new']] = n
                    out = {'ret': project_graph(n, idx)}
                elif op == 'clone':
                    n = g.clone()
                    pool[c['new']] = n
                    out = {'ret': project_graph(n, idx)}
                else:
                    raise ValueError(op)
        except (KeyboardInterrupt, SystemExit, MemoryError):
            raise
        except BaseException as ex:
            out = {'exc': exc_name(ex), 'msg': str(ex)[:100]}
        ev['out'] = out
        ev['pool'] = {str(k): project_graph(g, idx) for k, g in pool.items()}
        events.append(ev)
    return events


def simulate(ctx, module, cfg, num, depth, seed):
    """`tlc -simulate`: behaviours of the specification as JSON (one PrintT line each)."""
    import tempfile
    import shutil
    md = tempfile.mkdtemp(prefix='sim_', dir=ctx.tmp)
    jtmp = md + '_jtmp'
    os.makedirs(jtmp, exist_ok=True)
    cmd = ['java', '-Djava.io.tmpdir=' + jtmp, '-XX:+UseSerialGC', '-Xmx2g', '-cp', TLA_CP, 'tlc2.TLC', '-simulate', 'num=%d' % num,
           '-depth', str(depth), '-workers', '1', '-seed', str(seed), '-metadir', md, '-noGenerateSpecTE',
           '-config', cfg, module]
    e = dict(os.environ)
    e.pop('JAVA_TOOL_OPTIONS', None)
    p = subprocess.run(cmd, cwd=SPEC, env=e, stdout=subprocess.PIPE, stderr=subprocess.STDOUT, text=True, timeout=1800)
    shutil.rmtree(md, ignore_errors=True)
    shutil.rmtree(jtmp, ignore_errors=True)
    out = p.stdout
    if 'Error:' in out:
        print(out[-3000:])
        raise MachineryError('simulation of %s/%s failed' % (module, cfg))
    behs = []
    seen = set()
    for line in out.splitlines():
        if line.startswith('<<"BEHAVIOUR", "'):
            s = line[len('<<"BEHAVIOUR", '):-2]
            if s in seen:
                continue
            seen.add(s)
            behs.append(json.loads(json.loads(s)))
    m = re.search(r'The number of states generated: (\d+)', out)
    n = int(m.group(1)) if m else 0
    ctx.states += n
    ctx.transitions += n
    ctx.extra.setdefault('spec_runs', []).append({'module': module, 'cfg': cfg, 'mode': 'simulate', 'behaviours': len(behs),
                                                  'states': n, 'seed': seed})
    ctx.log('TLC -simulate %s/%s: %d behaviours, %d states' % (module, cfg, len(behs), n))
    return behs


# ---------------------------------------------------------------- Layer-B binding: recorded DFS schedules
def scc_schedule_events(b):
    """b: {trace, n, E, naming, shuf}.  Runs compute_SCCs on a recording DiGraph subclass and returns the
    micro-event trace for TraceSCC.tla (or None when the routine cannot be observed this way)."""
    name = NAMINGS[b.get('naming', 'int')]
    idx = {name(i): i for i in range(64)}
    rng = random.Random(b.get('shuf', 0))
    V = [name(i) for i in range(b['n'])]
    E = [(name(a), name(c)) for a, c in b['E']]
    rng.shuffle(V)
    rng.shuffle(E)
    log = []
    Base = pymc.DiGraph

    class Rec(Base):
        def __init__(self, V, E):
            super().__init__(V, E)
            self._calls = {}

        def nodes(self):
            for s in list(Base.nodes(self)):
                log.append({'ev': 'root', 's': idx[s]})
                yield s

        def next(self, v):
            k = self._calls.get(v, 0)
            self._calls[v] = k + 1
            base = Base.next(self, v)
            if k > 0:
                return base                 # second visit: the lowlink loop

            def it():
                for w in list(base):
                    log.append({'ev': 'adv', 'v': idx[v], 'w': idx[w]})
                    yield w
                log.append({'ev': 'exh', 'v': idx[v]})
            return it()
    try:
        g = Rec(V, E)
        comps = [[idx[v] for v in comp] for comp in pymc.graphmod.compute_SCCs(g)]
    except Exception as ex:
        return [{'trace': b['trace'], 'i': 0, 'ev': 'graph', 'n': b['n'], 'E': b['E']},
                {'trace': b['trace'], 'i': 1, 'ev': 'end', 'emitted': [[-1]], 'error': type(ex).__name__}]
    evs = [{'ev': 'graph', 'n': b['n'], 'E': b['E']}] + log + [{'ev': 'end', 'emitted': comps}]
    for i, e in enumerate(evs):
        e['trace'] = b['trace']
        e['i'] = i
    return evs
