"""Shared machinery: TLC runner, batched trace validation, verdict bookkeeping, evidence.

Exit codes of a check: 0 held (possibly with KNOWN-FINDING lines), 1 violation(s) with
`VIOLATION property=<id> replay=<path>` lines, 2 machinery failure (nothing is claimed).
"""
import os
import sys
import json
import time
import re
import shutil
import random
import tempfile
import subprocess
import concurrent.futures as cf

VERIF = os.path.dirname(os.path.dirname(os.path.abspath(__file__)))
SPEC = os.path.join(VERIF, 'spec')
REPO = os.environ.get('PYMC_REPO', '/repo')
TLA_CP = '/opt/veriftools/tla/tla2tools.jar:/opt/veriftools/tla/CommunityModules-deps.jar'
NCPU = min(16, os.cpu_count() or 4)


class MachineryError(Exception):
    """The verification machinery itself failed (TLC error, oracle disagreement, ...)."""


def _tlc_cmd(module, cfg, workers, metadir, extra=(), heap='3g', gcthreads=None):
    if workers == 1:        # trace-validation shard: a linear chain, many JVMs side by side
        cmd = ['java', '-XX:+UseSerialGC', '-XX:-UsePerfData', '-Xss512m', '-Xmx' + heap]
    else:
        cmd = ['java', '-XX:+UseParallelGC', '-Xss512m', '-Xmx' + heap]
        if gcthreads:
            cmd.append('-XX:ParallelGCThreads=%d' % gcthreads)
    cmd += ['-cp', TLA_CP, 'tlc2.TLC', '-workers', str(workers), '-metadir', metadir,
            '-noGenerateSpecTE']
    if cfg:
        cmd += ['-config', cfg]
    cmd += list(extra) + [module]
    return cmd


_RE_STATES = re.compile(r'(\d[\d,]*) states generated, (\d[\d,]*) distinct states found')


def parse_tlc(out):
    """Extract counts and error status from TLC's stdout."""
    gen = dist = 0
    for m in _RE_STATES.finditer(out):
        gen = int(m.group(1).replace(',', ''))
        dist = int(m.group(2).replace(',', ''))
    ok = ('Model checking completed. No error has been found.' in out
          or 'Finished in' in out and 'Error:' not in out)
    violated = re.findall(r'Invariant (\w+) is violated', out)
    violated += re.findall(r'Action property (\w+) is violated', out)
    if 'Temporal properties were violated' in out:
        violated.append('TEMPORAL')
    return {'generated': gen, 'distinct': dist, 'ok': ok and not violated and 'Error:' not in out,
            'violated': violated, 'errors': [l for l in out.splitlines() if l.startswith('Error:')]}


def run_tlc(module, cfg, workdir, workers=NCPU, env=None, extra=(), timeout=3600, heap='8g',
            gcthreads=None, tag=None):
    """Run TLC on SPEC/<module> with SPEC/<cfg>.  Returns (parsed, raw_output)."""
    metadir = tempfile.mkdtemp(prefix='meta_%s_' % (tag or 'x'), dir=workdir)
    e = dict(os.environ)
    e.pop('JAVA_TOOL_OPTIONS', None)
    if env:
        e.update({k: str(v) for k, v in env.items()})
    cmd = _tlc_cmd(module, cfg, workers, metadir, extra, heap, gcthreads)
    # TLC unpacks its standard modules into java.io.tmpdir and leaves them there: keep that inside the run's own scratch
    jtmp = metadir + '_jtmp'
    os.makedirs(jtmp, exist_ok=True)
    cmd.insert(1, '-Djava.io.tmpdir=' + jtmp)
    try:
        p = subprocess.run(cmd, cwd=SPEC, env=e, stdout=subprocess.PIPE, stderr=subprocess.STDOUT,
                           timeout=timeout, text=True)
        out = p.stdout
        rc = p.returncode
    except subprocess.TimeoutExpired as ex:
        subprocess.run(['pkill', '-f', metadir], check=False)
        out = (ex.stdout or '') if isinstance(ex.stdout, str) else (ex.stdout or b'').decode('utf8', 'replace')
        out += '\nError: TIMEOUT after %ss' % timeout
        rc = 124
    finally:
        shutil.rmtree(metadir, ignore_errors=True)
        shutil.rmtree(jtmp, ignore_errors=True)
    res = parse_tlc(out)
    res['rc'] = rc
    return res, out


DOCUMENTED_EXC = ('UnexpectedToken', 'UnexpectedCharacters', 'ParserError')


def exc_name(ex):
    """the class an exception is reported under: the nearest ancestor that is a built-in exception class or one of the
    library's documented parser errors.  A library-defined SUBCLASS of RuntimeError is a RuntimeError for every stated
    property ("raises RuntimeError"), so it is reported as RuntimeError."""
    for cls in type(ex).__mro__:
        if cls.__module__ == 'builtins' or cls.__name__ in DOCUMENTED_EXC:
            return cls.__name__
    return type(ex).__name__


def _nonull(x):
    """TLC's JSON module cannot read null: drop record fields that are None, write None inside lists as the string 'None'"""
    if isinstance(x, dict):
        return {k: _nonull(v) for k, v in x.items() if v is not None}
    if isinstance(x, (list, tuple)):
        return ['None' if v is None else _nonull(v) for v in x]
    return x


class Ctx:
    """One run of one property check."""

    def __init__(self, pid, tier, seed, replay=None):
        self.pid = pid
        self.tier = tier
        self.seed = seed
        self.replay = replay
        self.rng = random.Random(seed * 1000003 + sum(map(ord, pid)))
        self.t0 = time.time()
        self.tmp = tempfile.mkdtemp(prefix='pymcverif_%s_' % pid, dir=os.environ.get('PYMC_VERIF_TMP', '/var/tmp'))
        self.states = 0
        self.transitions = 0
        self.traces = 0            # events / behaviours of the implementation judged by TLC
        self.evaluations = 0
        self.nontrivial = set()
        self.samples = []
        self.violations = []
        self.known_hits = {}
        self.extra = {}
        self.assumptions = []
        self.findings = load_known_findings().get(pid, {'open': {}, 'fixed': {}})
        self.exhaustive = None
        self._viol_n = 0
        self.rule = ''

    # ---- bookkeeping
    def quick(self):
        return self.tier == 'quick'

    def log(self, *a):
        print('[%s %6.1fs]' % (self.pid, time.time() - self.t0), *a, flush=True)

    def sample(self, obj, limit=6):
        if len(self.samples) < limit:
            self.samples.append(obj)

    def count(self, key, n=1):
        self.extra[key] = self.extra.get(key, 0) + n

    def note(self, key, val):
        self.extra[key] = val

    def violation(self, what, replay_obj):
        """Record an unlisted violation; writes a replay file and prints the VIOLATION line."""
        self._viol_n += 1
        if self._viol_n > 25:           # keep the output finite; all are counted
            self.violations.append(what)
            return
        d = os.path.join(VERIF, 'replays', self.pid)
        os.makedirs(d, exist_ok=True)
        path = os.path.join(d, '%s_%s_%d_%03d.json' % (self.pid, self.tier, self.seed, self._viol_n))
        with open(path, 'w') as f:
            json.dump({'property': self.pid, 'what': what, 'case': replay_obj}, f, indent=1, default=str)
        self.violations.append(what)
        print('VIOLATION property=%s replay=%s' % (self.pid, path), flush=True)
        print('  ' + what[:400], flush=True)

    def known(self, kid, what):
        """An event explained by a listed open finding."""
        if kid not in self.findings['open']:
            # a deviation the findings file does not list is a violation, never silently known
            self.violation('unlisted deviation %s: %s' % (kid, what), {'deviation': kid, 'what': what})
            return
        self.known_hits.setdefault(kid, []).append(what)

    # ---- TLC
    def model(self, module, cfg, workers=NCPU, timeout=3600, env=None, extra=(), expect_ok=True, heap='8g'):
        """Spec-level TLC run (R1/R2).  A failure here is a machinery failure unless expect_ok=False."""
        t = time.time()
        res, out = run_tlc(module, cfg, self.tmp, workers=workers, env=env, extra=extra, timeout=timeout,
                           heap=heap, tag=cfg.replace('.cfg', ''))
        self.states += res['distinct']
        self.transitions += res['generated']
        self.extra.setdefault('spec_runs', []).append(
            {'module': module, 'cfg': cfg, 'distinct': res['distinct'], 'generated': res['generated'],
             'ok': res['ok'], 'violated': res['violated'], 'wall_s': round(time.time() - t, 1)})
        self.log('TLC %s/%s: %d distinct, %d generated, ok=%s %s (%.1fs)' % (
            module, cfg, res['distinct'], res['generated'], res['ok'], res['violated'], time.time() - t))
        if expect_ok and not res['ok']:
            sys.stdout.write(out[-3000:])
            raise MachineryError('spec-level run %s/%s failed: %s %s' % (module, cfg, res['violated'], res['errors'][:3]))
        return res, out

    def validate(self, module, cfg, events, nshards=NCPU, timeout=3600, env=None, heap='2g'):
        """Batched, total trace validation.  `events` is a list of JSON-able dicts, each with a
        unique integer 'tid'.  The trace spec consumes every line and writes the list of
        non-conforming verdicts.  Returns dict tid -> verdict record (only non-ok ones)."""
        if not events:
            return {}
        nshards = max(1, min(nshards, (len(events) + 19) // 20))
        if 'trace' in events[0]:
            # stateful traces: keep every trace on one shard, in order
            shards = [[] for _ in range(nshards)]
            for ev in events:
                shards[ev['trace'] % nshards].append(ev)
            shards = [sh for sh in shards if sh]
            nshards = len(shards)
        else:
            shards = [events[i::nshards] for i in range(nshards)]
        d = tempfile.mkdtemp(prefix='val_', dir=self.tmp)
        t = time.time()

        def one(i):
            tf = os.path.join(d, 'trace_%d.ndjson' % i)
            of = os.path.join(d, 'out_%d.json' % i)
            with open(tf, 'w') as f:
                for ev in shards[i]:
                    f.write(json.dumps(_nonull(ev), separators=(',', ':')) + '\n')
            e = {'TRACE_FILE': tf, 'OUT_FILE': of}
            if env:
                e.update(env)
            res, out = run_tlc(module, cfg, d, workers=1, env=e, timeout=timeout, heap=heap, gcthreads=2,
                               tag='s%d' % i)
            if not res['ok'] or not os.path.exists(of):
                sys.stdout.write(out[-4000:])
                raise MachineryError('trace validation %s shard %d failed: %s %s' % (module, i, res['violated'], res['errors'][:3]))
            with open(of) as f:
                o = json.load(f)
            if o.get('n') != len(shards[i]):
                raise MachineryError('trace validation %s shard %d consumed %s of %d lines' % (module, i, o.get('n'), len(shards[i])))
            return res, o

        verdicts = {}
        with cf.ThreadPoolExecutor(max_workers=nshards) as ex:
            for res, o in ex.map(one, range(nshards)):
                self.states += res['distinct']
                self.transitions += res['generated']
                for v in o.get('fails', []):
                    verdicts[v['tid']] = v
                if o.get('drift'):
                    self.extra['binding_drift_events'] = self.extra.get('binding_drift_events', 0) + int(o['drift'])
                if o.get('uncert'):
                    self.extra.setdefault('lasso_uncertified_tids', []).extend(o['uncert'])
        shutil.rmtree(d, ignore_errors=True)
        self.traces += len(events)
        self.count('tlc_validation_wall_s', round(time.time() - t, 1))
        self.log('validated %d events with %s (%d shards, %.1fs): %d non-conforming' % (
            len(events), module, nshards, time.time() - t, len(verdicts)))
        return verdicts

    # ---- finish
    def finish(self):
        cov = {
            'states': self.states, 'transitions': self.transitions,
            'traces_validated_against_impl': self.traces,
            'evaluations': self.evaluations or self.traces,
            'distinct_nontrivial': len(self.nontrivial),
            'rule': self.rule,
            'samples': self.samples or ['(no sample recorded)'],
            'known_findings_hit': {k: len(v) for k, v in self.known_hits.items()},
        }
        if self.exhaustive is not None:
            cov['exhaustive'] = self.exhaustive
        cov.update(self.extra)
        ev = {'property_id': self.pid, 'tier': self.tier, 'seed': self.seed, 'level': 'model_checking',
              'coverage': cov, 'assumptions': self.assumptions,
              'wall_s': round(time.time() - self.t0, 1), 'violations': len(self.violations)}
        if not os.environ.get('PYMC_VERIF_NOEVIDENCE'):     # runs against scratch trees (seeded changes) leave the evidence alone
            os.makedirs(os.path.join(VERIF, 'evidence'), exist_ok=True)
            with open(os.path.join(VERIF, 'evidence', self.pid + '.json'), 'w') as f:
                json.dump(ev, f, indent=1, default=str)
        for kid, hits in sorted(self.known_hits.items()):
            print('KNOWN-FINDING: property=%s %s %s (%d events; first: %s)' % (
                self.pid, kid, self.findings['open'][kid], len(hits), hits[0][:200]), flush=True)
        shutil.rmtree(self.tmp, ignore_errors=True)
        self.log('done: %d violations, %d known-finding ids hit, %.1fs' % (
            len(self.violations), len(self.known_hits), time.time() - self.t0))
        return 1 if self.violations else 0

    def abort(self):
        shutil.rmtree(self.tmp, ignore_errors=True)


def load_known_findings():
    """known-findings.txt: lines `finding: property=<id> <KF-id> <text>` (open) and
    `fixed: property=<id> <commit> <text>`.  Read-only at run time."""
    res = {}
    p = os.path.join(VERIF, 'known-findings.txt')
    if not os.path.exists(p):
        return res
    for line in open(p):
        line = line.strip()
        m = re.match(r'(finding|fixed): property=(C\d+) (\S+) (.*)', line)
        if not m:
            continue
        kind, pid, kid, text = m.groups()
        r = res.setdefault(pid, {'open': {}, 'fixed': {}})
        r['open' if kind == 'finding' else 'fixed'][kid] = text
    return res


def pmap(fn, items, procs=NCPU, chunk=None):
    """Parallel map over fork()ed workers (the repo modules are imported before the fork)."""
    import multiprocessing as mp
    items = list(items)
    if len(items) < 64 or procs <= 1:
        return [fn(x) for x in items]
    ctx = mp.get_context('fork')
    with ctx.Pool(procs) as pool:
        return pool.map(fn, items, chunksize=chunk or max(1, len(items) // (procs * 8)))
