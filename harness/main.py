"""./check <Cnn> [--tier quick|thorough] [--seed N] [--replay <path>]"""
import os
import sys
import argparse
import importlib
import traceback

HERE = os.path.dirname(os.path.abspath(__file__))
sys.path.insert(0, HERE)


def main():
    ap = argparse.ArgumentParser()
    ap.add_argument('pid')
    ap.add_argument('--tier', default=os.environ.get('VERIF_TIER', 'quick'), choices=['quick', 'thorough'])
    ap.add_argument('--seed', type=int, default=int(os.environ.get('VERIF_SEED', '0') or 0))
    ap.add_argument('--replay', default=None)
    a = ap.parse_args()
    # hash randomisation is derived from the seed so a run is reproducible; C06 spawns fresh
    # interpreters with other seeds itself
    want = str(a.seed % 4294967295)
    if os.environ.get('PYTHONHASHSEED') != want:
        os.environ['PYTHONHASHSEED'] = want
        os.execv(sys.executable, [sys.executable] + sys.argv)
    from common import Ctx, MachineryError
    pid = a.pid.upper()
    try:
        mod = importlib.import_module(pid.lower())
    except ImportError as ex:
        print('no check for %s: %s' % (pid, ex))
        return 2
    ctx = Ctx(pid, a.tier, a.seed, a.replay)
    try:
        if a.replay:
            mod.replay(ctx, a.replay)
        else:
            mod.run(ctx)
        return ctx.finish()
    except MachineryError as ex:
        print('MACHINERY-FAILURE property=%s %s' % (pid, ex))
        ctx.abort()
        return 2
    except Exception:
        traceback.print_exc()
        print('MACHINERY-FAILURE property=%s unexpected exception in the harness' % pid)
        ctx.abort()
        return 2


if __name__ == '__main__':
    sys.exit(main())
