"""Fresh-interpreter worker: runs event producers in a NEW process after a preamble that fixes process-global state
of the library (e.g. which Python object the BDD terminals are first created from).
usage: fresh_worker.py <preamble> <kind> <cases.json> <out.json>
  preamble: int-terminals | bool-terminals | nodes-first | none
  kind:     bdd-history | bool-event"""
import json
import os
import sys

HERE = os.path.dirname(os.path.abspath(__file__))
sys.path.insert(0, HERE)
import pymc            # noqa: E402
import bddfam          # noqa: E402
from pyModelChecking.BDD import BDDNode   # noqa: E402


def main():
    pre, kind, cf, of = sys.argv[1:5]
    if pre == 'int-terminals':
        BDDNode(1), BDDNode(0)
    elif pre == 'bool-terminals':
        BDDNode(True), BDDNode(False)
    elif pre == 'nodes-first':
        BDDNode.nodes()
    cases = json.load(open(cf))
    out = []
    for c in cases:
        if kind == 'bdd-history':
            out.append(bddfam.run_history(c))
        else:
            for k in ('e', 'e1', 'e2'):
                if k in c:
                    c[k] = pymc.T(c[k])
            out.append(bddfam.bool_event(c))
    json.dump(out, open(of, 'w'))


if __name__ == '__main__':
    main()
