"""Input generators: Kripke structures, digraphs and formula trees (abstract values)."""
import itertools
import random

P, Q, TR, FA = ('ap', 'p'), ('ap', 'q'), ('true',), ('false',)
L0 = [P, Q, TR, FA]
M0 = [P, Q]


# ---------------------------------------------------------------- Kripke structures
def total_relations(n):
    nonempty = [c for r in range(1, n + 1) for c in itertools.combinations(range(n), r)]
    for succs in itertools.product(nonempty, repeat=n):
        yield [(s, t) for s in range(n) for t in succs[s]]


def labelings(n, atoms):
    subsets = [list(c) for r in range(len(atoms) + 1) for c in itertools.combinations(atoms, r)]
    for ls in itertools.product(subsets, repeat=n):
        yield [list(x) for x in ls]


def canon(n, R, L):
    """canonical form under state permutations (for one representative per isomorphism class)"""
    best = None
    for perm in itertools.permutations(range(n)):
        r = tuple(sorted((perm[a], perm[b]) for a, b in R))
        l = [None] * n
        for i in range(n):
            l[perm[i]] = tuple(sorted(L[i]))
        key = (r, tuple(l))
        if best is None or key < best:
            best = key
    return best


def kripkes(n, atoms=('p', 'q'), iso=True):
    """All total Kripke structures with exactly n states (one per isomorphism class if iso)."""
    seen = set()
    for R in total_relations(n):
        for L in labelings(n, atoms):
            if iso:
                c = canon(n, R, L)
                if c in seen:
                    continue
                seen.add(c)
                yield {'n': n, 'R': [list(e) for e in c[0]], 'L': [list(x) for x in c[1]]}
            else:
                yield {'n': n, 'R': [list(e) for e in R], 'L': L}


_CACHE = {}


def small_scope(maxn=3, atoms=('p', 'q')):
    key = (maxn, atoms)
    if key not in _CACHE:
        _CACHE[key] = [k for n in range(1, maxn + 1) for k in kripkes(n, atoms)]
    return _CACHE[key]


def catalogue(size=40, seed=12345):
    """A fixed catalogue of structurally diverse 3-state structures (deterministic)."""
    ks = [k for k in small_scope(3) if k['n'] == 3]
    rnd = random.Random(seed)
    rnd.shuffle(ks)
    # prefer structures with several SCCs / self loops / different labels: stratify by #edges
    ks.sort(key=lambda k: (len(k['R']), sum(map(len, k['L']))))
    step = max(1, len(ks) // size)
    return ks[::step][:size]


def rand_kripke(rnd, n, atoms=('p', 'q'), density=0.4):
    while True:
        R = [[a, b] for a in range(n) for b in range(n) if rnd.random() < density]
        if {a for a, b in R} == set(range(n)):
            break
    L = [sorted(x for x in atoms if rnd.random() < 0.5) for _ in range(n)]
    return {'n': n, 'R': R, 'L': L}


# ---------------------------------------------------------------- formulas
def ctl_q(S1, S2=None):
    """all quantifier/temporal pairs applied to operands from S1 (unary) / S1 x S2 (binary)"""
    S2 = S1 if S2 is None else S2
    out = []
    for q in 'AE':
        for o in 'XFG':
            out += [(q, (o, f)) for f in S1]
        for o in 'UR':
            out += [(q, (o, f, h)) for f in S1 for h in S2]
    return out


def bool1(S1, S2=None):
    S2 = S1 if S2 is None else S2
    return [('not', f) for f in S1] + [(o, f, h) for o in ('or', 'and', 'imp') for f in S1 for h in S2]


def path_un(S):
    return [(o, f) for o in ('not', 'X', 'F', 'G') for f in S]


def path_bi(S1, S2=None):
    S2 = S1 if S2 is None else S2
    return [(o, f, h) for o in ('or', 'and', 'imp', 'U', 'R') for f in S1 for h in S2]


def dedup(xs):
    seen = set()
    out = []
    for x in xs:
        if x not in seen:
            seen.add(x)
            out.append(x)
    return out


def size(f):
    return 1 + sum(size(x) for x in f[1:] if isinstance(x, tuple))


def temporal_count(f):
    return (1 if f[0] in 'XFGUR' and len(f[0]) == 1 else 0) + sum(temporal_count(x) for x in f[1:] if isinstance(x, tuple))


def path_formulas_upto(nodes, leaves=L0):
    """all LTL path formulas with at most `nodes` nodes"""
    by = {1: list(leaves)}
    for k in range(2, nodes + 1):
        cur = []
        for o in ('not', 'X', 'F', 'G'):
            cur += [(o, f) for f in by[k - 1]]
        for o in ('or', 'and', 'imp', 'U', 'R'):
            for a in range(1, k - 1):
                b = k - 1 - a
                if b >= 1:
                    cur += [(o, f, h) for f in by[a] for h in by[b]]
        by[k] = cur
    return [f for k in range(1, nodes + 1) for f in by[k]]


def rand_ctl(rnd, d, leaves=L0, nary=True):
    if d == 0 or rnd.random() < 0.2:
        return rnd.choice(leaves)
    t = rnd.choice(['not', 'or', 'and', 'imp', 'AX', 'AF', 'AG', 'AU', 'AR', 'EX', 'EF', 'EG', 'EU', 'ER'])
    if t == 'not':
        return (t, rand_ctl(rnd, d - 1, leaves, nary))
    if t in ('or', 'and'):
        k = 3 if nary and rnd.random() < 0.2 else 2
        return (t,) + tuple(rand_ctl(rnd, d - 1, leaves, nary) for _ in range(k))
    if t == 'imp':
        return (t, rand_ctl(rnd, d - 1, leaves, nary), rand_ctl(rnd, d - 1, leaves, nary))
    q, o = t[0], t[1]
    if o in 'XFG':
        return (q, (o, rand_ctl(rnd, d - 1, leaves, nary)))
    return (q, (o, rand_ctl(rnd, d - 1, leaves, nary), rand_ctl(rnd, d - 1, leaves, nary)))


def rand_path(rnd, d, leaves=L0, quant=False, nary=True):
    """random LTL path formula (quant=True: CTL* path formula with nested quantifiers)"""
    if d == 0 or rnd.random() < 0.2:
        return rnd.choice(leaves)
    ops = ['not', 'or', 'and', 'imp', 'X', 'F', 'G', 'U', 'R'] + (['A', 'E'] if quant else [])
    t = rnd.choice(ops)
    if t in ('not', 'X', 'F', 'G', 'A', 'E'):
        return (t, rand_path(rnd, d - 1, leaves, quant, nary))
    if t in ('or', 'and') and nary and rnd.random() < 0.2:
        return (t,) + tuple(rand_path(rnd, d - 1, leaves, quant, nary) for _ in range(3))
    return (t, rand_path(rnd, d - 1, leaves, quant, nary), rand_path(rnd, d - 1, leaves, quant, nary))


def rand_ctls_state(rnd, d, leaves=L0):
    """random CTL* state formula"""
    t = rnd.choice(['A', 'E', 'A', 'E', 'A', 'E', 'not', 'or', 'and', 'imp', 'leaf'])
    if t in 'AE':
        return (t, rand_path(rnd, d, leaves, quant=True))
    if t == 'leaf' or d == 0:
        return rnd.choice(leaves)
    if t == 'not':
        return (t, rand_ctls_state(rnd, d - 1, leaves))
    return (t, rand_ctls_state(rnd, d - 1, leaves), rand_ctls_state(rnd, d - 1, leaves))


# ---------------------------------------------------------------- digraphs
def all_digraphs(n):
    pairs = [(a, b) for a in range(n) for b in range(n)]
    for mask in range(1 << len(pairs)):
        yield [list(pairs[i]) for i in range(len(pairs)) if mask >> i & 1]


def rand_digraph(rnd, n, density=None):
    d = density if density is not None else rnd.choice([0.1, 0.2, 0.3, 0.5])
    return [[a, b] for a in range(n) for b in range(n) if rnd.random() < d]


def samp(rnd, xs, k):
    """sample without replacement, capped at the population size"""
    xs = list(xs)
    return rnd.sample(xs, min(k, len(xs)))


def core_tail_kripke(rnd, atoms=('p', 'q')):
    """a strongly connected core whose states all have self-loops (a fair SCC even for the as-coded
    get_fair_states) plus tail states: sinks reached from the core (no fair path) or sources into it"""
    nc = rnd.choice([2, 2, 3])
    nt = rnd.choice([0, 1, 1, 2])
    n = nc + nt
    R = {(i, i) for i in range(nc)} | {(i, (i + 1) % nc) for i in range(nc)}
    R |= {(a, b) for a in range(nc) for b in range(nc) if rnd.random() < 0.3}
    for t in range(nc, n):
        if rnd.random() < 0.6:          # unfair sink below the core
            R.add((t, t))
            R.add((rnd.randrange(nc), t))
            if rnd.random() < 0.3:
                R.add((rnd.randrange(nc), t))
        else:                           # source above the core
            R.add((t, rnd.randrange(nc)))
            if rnd.random() < 0.4:
                R.add((t, t))
    if rnd.random() < 0.4:
        # an upstream non-fair component of 2-3 states (a plain cycle, no self-loops) with ONE exit into the core,
        # leaving from a randomly chosen member: its states have a fair path only through that exit
        k = rnd.choice([2, 2, 3])
        up = list(range(n, n + k))
        for i in range(k):
            R.add((up[i], up[(i + 1) % k]))
        R.add((rnd.choice(up), rnd.randrange(nc)))
        n += k
    L = [sorted(x for x in atoms if rnd.random() < 0.5) for _ in range(n)]
    return {'n': n, 'R': [list(e) for e in sorted(R)], 'L': L}, nc


def shared_polarity_formulas(leaves=(('ap', 'p'), ('ap', 'q'))):
    """path formulas in which one temporal subformula h occurs twice, under different polarities / contexts"""
    P, Q = leaves
    hs = [('F', P), ('G', P), ('U', P, Q), ('X', P), ('R', Q, P), ('F', ('G', P)), ('G', ('F', Q)), ('U', TR, ('not', P))]
    out = []
    for h in hs:
        for x in (Q, ('not', Q), ('X', Q)):
            out += [('imp', h, ('and', x, h)), ('or', ('not', h), ('and', x, h)), ('and', h, ('not', ('or', x, h))), ('imp', ('or', x, h), h),
                    ('U', h, ('not', h)), ('imp', h, ('X', h)), ('or', ('and', h, x), ('and', ('not', h), ('not', x))), ('R', ('not', h), ('or', x, h)),
                    ('imp', ('not', h), ('F', h)), ('and', ('or', x, ('not', h)), ('or', h, x)), ('G', ('imp', h, ('or', x, h))), ('not', ('imp', h, ('and', x, h)))]
    return dedup(out)


def rand_prop(rnd, leaves_n, atoms=(('ap', 'p'), ('ap', 'q'))):
    """a long propositional formula with about leaves_n leaves (n-ary and/or included)"""
    if leaves_n <= 1:
        x = rnd.choice(list(atoms) + [TR, FA] if rnd.random() < 0.15 else list(atoms))
        return ('not', x) if rnd.random() < 0.4 else x
    k = rnd.choice([2, 2, 3])
    parts = []
    left = leaves_n
    for i in range(k):
        take = max(1, left // (k - i)) if i < k - 1 else left
        parts.append(rand_prop(rnd, take, atoms))
        left -= take
        if left <= 0:
            break
    if len(parts) == 1:
        return parts[0]
    op = rnd.choice(['and', 'or', 'imp'] if len(parts) == 2 else ['and', 'or'])
    return (op,) + tuple(parts)


def rand_long_path(rnd):
    """a path formula that prints long (well over 64 characters) but has at most 4 temporal operators"""
    def unit():
        a, b = rand_prop(rnd, rnd.randint(3, 6)), rand_prop(rnd, rnd.randint(2, 5))
        return rnd.choice([('G', ('imp', a, ('F', b))), ('G', a), ('F', ('and', a, ('X', b))), ('U', a, b), ('G', ('F', a)), ('F', ('G', b)), ('R', a, b)])
    u = [unit()]
    if rnd.random() < 0.6:
        u.append(unit())
    g = u[0] if len(u) == 1 else (rnd.choice(['and', 'or']),) + tuple(u)
    return g


def rand_restricted(rnd, logic, d, leaves=L0, made=None):
    """random formula over the RESTRICTED alphabet of the logic (CTL: not/or/EX/EU/EG; LTL and CTL* path level:
    not/or/X/U, CTL* also E) in which subformulas recur: such a formula needs no rewriting, so the algorithms work on
    the caller's own objects, and a repeated subformula is already in the labelling table when it is met again."""
    if made is None:
        made = []
    if made and rnd.random() < 0.35:
        return rnd.choice(made)
    if d == 0 or rnd.random() < 0.15:
        f = rnd.choice(leaves)
    else:
        if logic == 'CTL':
            t = rnd.choice(['not', 'or', 'or', 'EX', 'EU', 'EG'])
            sub = lambda: rand_restricted(rnd, logic, d - 1, leaves, made)
            if t == 'not':
                f = ('not', sub())
            elif t == 'or':
                f = ('or',) + tuple(sub() for _ in range(rnd.choice([2, 2, 3])))
            elif t == 'EX':
                f = ('E', ('X', sub()))
            elif t == 'EG':
                f = ('E', ('G', sub()))
            else:
                f = ('E', ('U', sub(), sub()))
        else:
            t = rnd.choice(['not', 'or', 'or', 'X', 'U'] + (['E'] if logic == 'CTLS' else []))
            sub = lambda: rand_restricted(rnd, logic, d - 1, leaves, made)
            if t in ('not', 'X', 'E'):
                f = (t, sub())
            elif t == 'or':
                f = ('or',) + tuple(sub() for _ in range(rnd.choice([2, 2, 3])))
            else:
                f = ('U', sub(), sub())
    made.append(f)
    return f


def multi_core_kripke(rnd, atoms=('p', 'q')):
    """two or three strongly connected cores (every state with a self-loop, 2-3 states each: each one a fair-SCC candidate
    also for the as-coded get_fair_states), optionally chained, plus an optional transient source; returns (K, cores)"""
    cores = []
    n = 0
    R = set()
    for _ in range(rnd.choice([2, 2, 3])):
        k = rnd.choice([2, 2, 3])
        c = list(range(n, n + k))
        n += k
        cores.append(c)
        for i in range(k):
            R.add((c[i], c[i]))
            R.add((c[i], c[(i + 1) % k]))
    for i in range(len(cores) - 1):
        if rnd.random() < 0.6:
            R.add((rnd.choice(cores[i]), rnd.choice(cores[i + 1])))
    if rnd.random() < 0.5:
        R.add((n, rnd.choice(rnd.choice(cores))))
        if rnd.random() < 0.5:
            R.add((n, rnd.choice(rnd.choice(cores))))
        n += 1
    L = [sorted(x for x in atoms if rnd.random() < 0.5) for _ in range(n)]
    return {'n': n, 'R': [list(e) for e in sorted(R)], 'L': L}, cores


def tall_path(rnd, h, leaves=(('ap', 'p'), ('ap', 'q'), ('not', ('ap', 'p'))), base=None):
    """a path formula of nesting height about h with few temporal operators: a specification assembled from many
    requirements by folding a binary connective (r1 & r2 & ... as ((r1 & r2) & r3) ...).  Most requirements are neutral
    for the connective (valid under `and`, unsatisfiable under `or`), so that the answer still depends on the innermost
    parts and is not trivially all / no states."""
    g = base if base is not None else rnd.choice([('G', ('ap', 'p')), ('F', ('ap', 'q')), ('U', ('ap', 'p'), ('ap', 'q')), ('G', ('F', ('ap', 'p')))])
    op = rnd.choice(['and', 'and', 'or'])
    neutral = {'and': [('true',), ('or', ('ap', 'p'), ('not', ('ap', 'p'))), ('or', ('ap', 'q'), ('true',)), ('not', ('false',))],
               'or': [('false',), ('and', ('ap', 'p'), ('not', ('ap', 'p'))), ('not', ('true',)), ('and', ('ap', 'q'), ('false',))]}
    for i in range(h):
        leaf = rnd.choice(neutral[op]) if rnd.random() < 0.96 else rnd.choice(leaves)
        g = (op, g, leaf) if rnd.random() < 0.8 else (op, leaf, g)
    return g


def recurrence_formulas(rnd, leaves=(('ap', 'p'), ('ap', 'q'), ('not', ('ap', 'p')))):
    """path formulas of the recurrence / persistence kind (three or four nested or conjoined temporal operators): fairness
    specifications, G F over a binary operator, F G over an until, response"""
    a, b, c = rnd.choice(leaves), rnd.choice(leaves), rnd.choice(leaves)
    GF = lambda x: ('G', ('F', x))
    FG = lambda x: ('F', ('G', x))
    return rnd.choice([
        ('and', GF(a), GF(b)), ('imp', GF(a), GF(b)), ('or', FG(a), GF(b)), ('and', GF(a), GF(b), GF(c)), ('imp', ('and', GF(a), GF(b)), GF(c)),
        GF(('R', a, b)), GF(('U', a, b)), FG(('U', a, b)), FG(('R', a, b)), GF(('not', ('U', a, b))), ('G', ('imp', a, ('F', b))),
        ('G', ('F', ('G', a))), ('F', ('G', ('F', a))), GF(('and', a, ('X', b))), ('U', GF(a), b), ('R', a, FG(b)),
        ('and', GF(a), FG(b)), ('not', ('and', GF(a), GF(b)))])
