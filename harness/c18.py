"""C18 - expression and lambda notation build the same OBDD; printing round-trips."""
import itertools
import json

import bddfam
from bddfam import rand_expr, all_exprs, BAD_TEXT


def run(ctx):
    q = ctx.quick()
    rnd = ctx.rng
    ctx.rule = ('cases = Boolean expression ASTs (all to depth 2 over <=3 variables and constants; depth 3-4 sampled over <=4 variables) '
                'rendered with &,|,~ / and,or,not / mixed / unparenthesised keyword chains, built as OBDD(expr, ordering) and as '
                'OBDD("lambda args: expr") under all argument orders; both must be THE reduced ordered diagram of the denoted function; '
                'OBDD(str(o.root), o.ordering) and OBDD(str(o)) must equal o; a variable missing from the ordering/argument list must '
                'raise RuntimeError and non-Boolean syntax (12 kinds) SyntaxError (either when both apply); distinct_nontrivial = '
                'distinct (notation, argument order, expression) with a non-constant result')
    ctx.model('MC_Bool.tla', 'Bool_mc.cfg', timeout=1500)
    cases = []
    V3 = ['a', 'b', 'c']
    d2 = all_exprs(2, V3[:2]) + all_exprs(1, V3)
    d2 = list(dict.fromkeys(d2))
    exprs = d2 if not q else rnd.sample(d2, 900)
    ctx.exhaustive = not q
    orders = {2: [list(p) for p in itertools.permutations(V3[:2])], 3: [list(p) for p in itertools.permutations(V3)]}
    for e in exprs:
        n = 3 if 'c' in json.dumps(e) else rnd.choice([2, 3])
        for order in (orders[n] if not q else [rnd.choice(orders[n])]):
            st = rnd.choice(['sym', 'kw', 'mix', 'chain'])
            seed = rnd.randrange(1 << 30)
            for notation in ('expr', 'lambda'):
                cases.append({'op': 'build', 'notation': notation, 'order': order, 'e': e, 'style': st, 'seed': seed})
            cases.append({'op': 'strrt', 'notation': rnd.choice(['expr', 'lambda']), 'order': order, 'e': e, 'style': st, 'seed': seed})
    V4 = ['a', 'b', 'c', 'd']
    orders4 = [list(p) for p in itertools.permutations(V4)]
    for _ in range(1500 if q else 40000):
        e = rand_expr(rnd, rnd.choice([3, 4]), V4)
        order = rnd.choice(orders4)
        st = rnd.choice(['sym', 'kw', 'mix', 'chain'])
        seed = rnd.randrange(1 << 30)
        for notation in ('expr', 'lambda'):
            cases.append({'op': 'build', 'notation': notation, 'order': order, 'e': e, 'style': st, 'seed': seed})
        cases.append({'op': 'strrt', 'notation': rnd.choice(['expr', 'lambda']), 'order': order, 'e': e, 'style': st, 'seed': seed})
    # error outcomes: missing variables and non-Boolean syntax, also after operands that are already constant
    for _ in range(1200 if q else 20000):
        r = rnd.random()
        if r < 0.4:
            e = rand_expr(rnd, rnd.choice([1, 2, 3]), V4, bad=0.25)
            order = rnd.choice(orders4)
        elif r < 0.8:
            e = rand_expr(rnd, rnd.choice([1, 2, 3]), V4)
            order = rnd.sample(V4, rnd.choice([1, 2, 3]))
        else:   # constant prefix then an invalid operand (short-circuit hazards)
            inv = rnd.choice([('bad', rnd.choice(sorted(BAD_TEXT))), ('var', 'zz')])
            pre = rnd.choice([('const', 0), ('and', ('var', 'a'), ('not', ('var', 'a'))), ('const', 1), ('or', ('var', 'b'), ('not', ('var', 'b')))])
            e = (rnd.choice(['and', 'or']), pre, inv) if rnd.random() < 0.7 else (rnd.choice(['and', 'or']), inv, pre)
            order = ['a', 'b', 'c', 'd']
        pre = [(' & '.join(rnd.sample(V4, rnd.choice([2, 3, 4]))), rnd.sample(V4, 4))] if rnd.random() < 0.5 else []
        cases.append({'op': 'build', 'notation': rnd.choice(['expr', 'lambda']), 'order': order, 'e': e, 'pre': pre,
                      'style': rnd.choice(['sym', 'kw', 'mix', 'chain']), 'seed': rnd.randrange(1 << 30)})
    # zero variables: constant expressions with an empty ordering / an empty argument list
    consts = [e for e in all_exprs(2, []) ]
    for e in (rnd.sample(consts, min(len(consts), 120)) if q else consts):
        for notation in ('expr', 'lambda'):
            cases.append({'op': 'build', 'notation': notation, 'order': [], 'e': e, 'style': rnd.choice(['sym', 'kw', 'mix']), 'seed': rnd.randrange(1 << 30)})
    # long keyword chains (5-20 operands in one flat `and` / `or`: one n-ary node of Python's grammar)
    for _ in range(200 if q else 4000):
        order = rnd.sample(V4, 4)
        k = rnd.randint(5, 20)
        op = rnd.choice(['and', 'or'])
        lit = lambda: rnd.choice([('var', rnd.choice(order)), ('not', ('var', rnd.choice(order))), ('const', 1 if op == 'and' else 0),
                                  ((('or' if op == 'and' else 'and'), ('var', rnd.choice(order)), ('var', rnd.choice(order))))])
        e = lit()
        for _i in range(k - 1):
            e = (op, e, lit())
        seed = rnd.randrange(1 << 30)
        for notation in ('expr', 'lambda'):
            cases.append({'op': 'build', 'notation': notation, 'order': order, 'e': e, 'style': 'chain', 'seed': seed})
        if rnd.random() < 0.3:
            cases.append({'op': 'strrt', 'notation': 'expr', 'order': order, 'e': e, 'style': 'chain', 'seed': seed})
    cases.append({'op': 'build', 'notation': 'expr', 'order': [], 'e': ('var', 'a'), 'style': 'sym'})
    cases.append({'op': 'build', 'notation': 'lambda', 'order': [], 'e': ('or', ('var', 'a'), ('const', 1)), 'style': 'kw'})
    events = bddfam.run_bool_events(ctx, cases)
    for e in events:
        o = e.get('out') or e.get('base') or {}
        if 'tree' in o and o['tree'][0] != 't':
            ctx.nontrivial.add(json.dumps([e['op'], e.get('notation'), e.get('order'), e.get('e')]))
    ctx.note('build_outcomes', {'ok': sum(1 for e in events if e['op'] == 'build' and 'tree' in e['out']),
                                'SyntaxError': sum(1 for e in events if e['op'] == 'build' and e['out'].get('exc') == 'SyntaxError'),
                                'RuntimeError': sum(1 for e in events if e['op'] == 'build' and e['out'].get('exc') == 'RuntimeError')})
    ctx.sample(events[0])
    ctx.sample(events[2])
    ctx.sample(events[-1])


def replay(ctx, path):
    bddfam.replay_bool(ctx, path)
