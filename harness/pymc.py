"""Adapter between the abstract values of the specification and pyModelChecking objects.

Formulas on the wire are tagged lists: ["ap","p"], ["true"], ["not",f], ["or",f1,..,fk],
["U",f,g], ["A",g] ... ; Kripke structures are {n, R:[[s,t]..], L:[[atoms]..]} over states
0..n-1.  The harness keeps the bijection to whatever state objects it presents to the code.
"""
import os
import sys
import io
import contextlib

from common import REPO, exc_name

sys.dont_write_bytecode = True
if REPO not in sys.path:
    sys.path.insert(0, REPO)

import pyModelChecking                      # noqa: E402
from pyModelChecking import Kripke, DiGraph  # noqa: E402
import pyModelChecking.PL as PL             # noqa: E402
import pyModelChecking.CTLS as CTLS         # noqa: E402
import pyModelChecking.CTL as CTL           # noqa: E402
import pyModelChecking.LTL as LTL           # noqa: E402
import pyModelChecking.graph as graphmod    # noqa: E402
import pyModelChecking.kripke as kripkemod  # noqa: E402
import pyModelChecking.parser as parsermod  # noqa: E402

assert os.path.realpath(pyModelChecking.__file__).startswith(os.path.realpath(REPO)), pyModelChecking.__file__

LANGS = {'PL': PL, 'CTL': CTL, 'LTL': LTL, 'CTLS': CTLS}
UNARY = {'not': 'Not', 'X': 'X', 'F': 'F', 'G': 'G', 'A': 'A', 'E': 'E'}
BINARY = {'imp': 'Imply', 'U': 'U', 'R': 'R'}
NARY = {'or': 'Or', 'and': 'And'}
CLASS2TAG = {'Not': 'not', 'Or': 'or', 'And': 'and', 'Imply': 'imp', 'X': 'X', 'F': 'F', 'G': 'G',
             'U': 'U', 'R': 'R', 'A': 'A', 'E': 'E'}


def T(x):
    """list tree -> hashable tuple tree"""
    return tuple(T(y) if isinstance(y, (list, tuple)) else y for y in x)


def to_obj(tree, Lang, share=None):
    """Build the formula object bottom-up with the constructors of language module Lang.  With a dict `share`, equal
    subtrees become ONE object used as an operand several times (a DAG, as a caller who names a subformula builds it)."""
    if share is not None:
        key = T(tree)
        if key not in share:
            share[key] = _to_obj(tree, Lang, share)
        return share[key]
    return _to_obj(tree, Lang, None)


def _to_obj(tree, Lang, share):
    t = tree[0]
    if t == 'ap':
        return Lang.AtomicProposition(tree[1])
    if t == 'true':
        return Lang.Bool(True)
    if t == 'false':
        return Lang.Bool(False)
    name = UNARY.get(t) or BINARY.get(t) or NARY.get(t)
    if name is None:
        raise ValueError('unknown tag %r' % (t,))
    cls = getattr(Lang, name)       # AttributeError if the language has no such symbol
    return cls(*[to_obj(x, Lang, share) for x in tree[1:]])


def to_tree(obj):
    """Formula object -> tagged list, by class name and subformulas() (never via str/==)."""
    name = obj.__class__.__name__
    if name == 'Bool':
        v = getattr(obj, '_value', None)
        if v is None:                  # the private attribute was renamed: fall back to the public behaviour Bool(b) == b
            v = bool(obj == True)      # noqa: E712
        return ['true'] if bool(v) else ['false']
    if name == 'AtomicProposition':
        return ['ap', obj.name]
    tag = CLASS2TAG.get(name)
    if tag is None:
        return ['?' + name]
    return [tag] + [to_tree(x) for x in obj.subformulas()]


def lang_of(obj):
    """Short name of the language module the object's class lives in."""
    m = obj.__class__.__module__
    for k, v in LANGS.items():
        if m == v.__name__ + '.language' or m == v.__name__:
            return k
    return m


SYM = {'not': 'not', 'or': 'or', 'and': 'and', 'imp': '-->'}
RESERVED = ('true', 'false', 'not', 'or', 'and', 'A', 'E', 'X', 'F', 'G', 'U', 'R')


def to_text(tree, logic='CTLS'):
    """Harness-side printer (independent of the library's __str__): fully parenthesised text in
    the documented concrete syntax of each logic."""
    t = tree[0]
    if t == 'ap':
        import re
        if re.match(r'^[a-zA-Z_][a-zA-Z_0-9]*$', tree[1]) and tree[1] not in RESERVED:
            return tree[1]
        return '"%s"' % tree[1]          # the grammars' second form of an atomic proposition (no escapes are generated)
    if t in ('true', 'false'):
        return t
    if logic == 'CTL':
        if t in ('A', 'E'):
            g = tree[1]
            if g[0] in ('X', 'F', 'G'):
                return '%s %s (%s)' % (t, g[0], to_text(g[1], logic))
            return '%s ((%s) %s (%s))' % (t, to_text(g[1], logic), g[0], to_text(g[2], logic))
        if t == 'not':
            return 'not (%s)' % to_text(tree[1], logic)
        return '(' + (' %s ' % SYM[t]).join('(%s)' % to_text(x, logic) for x in tree[1:]) + ')'
    if t in ('not', 'X', 'F', 'G', 'A', 'E'):
        return '%s (%s)' % (SYM.get(t, t), to_text(tree[1], logic))
    sym = SYM.get(t, t)
    return '(' + (' %s ' % sym).join('(%s)' % to_text(x, logic) if x[0] not in ('ap', 'true', 'false') else to_text(x, logic)
                                     for x in tree[1:]) + ')'


# ---------------------------------------------------------------- Kripke presentation
def ident(i):
    return i


class Thing(object):
    """a state/node object hashed and compared by identity (a user-defined class without __eq__)"""
    __slots__ = ('tag',)

    def __init__(self, tag):
        self.tag = tag

    def __repr__(self):
        return 'Thing(%s)' % self.tag


_THINGS = [Thing(i) for i in range(64)]

NAMINGS = {
    'int': lambda i: i,
    'str': lambda i: 's%d' % i,
    'tuple': lambda i: (i, 'x'),
    'mixed': lambda i: [0, 'one', (2, 2), frozenset([3]), 4.5, 'five', (6,), 7, 'eight', (9, 9), 10, '11', 12][i % 13] if i < 13 else i,
    'neg': lambda i: -i - 1,
    'obj': lambda i: _THINGS[i],                        # identity-compared objects
    'objmix': lambda i: _THINGS[i] if i % 2 else (i, _THINGS[i]),   # tuples with identity-compared components
    # falsy and None node objects (legal hashables; only used for plain digraphs: Kripke.labels(None) means "all labels")
    'falsy': lambda i: [None, 0, '', (), frozenset(), 'x', (0,), -1, 'None', 2.5, (None,), 'y', 7][i] if i < 13 else i,
}


def as_container(xs, rng, pairs=False):
    """Present the list xs as one of the collection types a caller may legitimately pass (list, tuple, set, frozenset,
    dict keys view, one-shot iterator / generator); with pairs=True the elements of a list/tuple may themselves be 2-element lists."""
    if rng is None:
        return xs
    k = rng.randrange(8)
    if k == 6:
        return iter(list(xs))            # a one-shot iterator (the constructors and get_subgraph consume their argument once)
    if k == 7:
        return (x for x in list(xs))
    if k == 0:
        return list(xs)
    if k == 1:
        return tuple(xs)
    if k == 2:
        return set(xs)
    if k == 3:
        return frozenset(xs)
    if k == 4:
        return dict.fromkeys(xs).keys()
    return tuple(list(x) for x in xs) if pairs else tuple(xs)


class SpecKripke(Kripke):
    """a user subclass whose constructor takes ONE description dict (a different signature from Kripke's own)"""

    def __init__(self, spec):
        super(SpecKripke, self).__init__(S=spec.get('S'), S0=spec.get('S0'), R=spec.get('R'), L=spec.get('L'))
        self.spec_name = spec.get('name', 'unnamed')


def new_kripke(S, S0, R, L, sub=False):
    if sub:
        return SpecKripke({'S': S, 'S0': S0, 'R': R, 'L': L})
    return Kripke(S=S, S0=S0, R=R, L=L)


def present_F(F, name, rng):
    """fairness constraints as the caller may give them: each constraint a set, a frozenset or a dict keys view (what
    Kripke.states() itself returns), the constraints in a list or a tuple"""
    if F is None:
        return None
    out = []
    for P in F:
        xs = [name(i) for i in P]
        k = rng.randrange(3) if rng is not None else 0
        out.append(set(xs) if k == 0 else frozenset(xs) if k == 1 else dict.fromkeys(xs).keys())
    return tuple(out) if rng is not None and rng.random() < 0.3 else out


def mk_kripke(K, naming='int', order=None, rng=None, S0=None, relabel=False):
    """Present abstract K = {n,R,L} to the real constructor.  Returns (kripke, name_of, index_of)."""
    name = NAMINGS[naming] if isinstance(naming, str) else naming
    n = K['n']
    S = [name(i) for i in range(n)]
    R = [(name(a), name(b)) for a, b in K['R']]
    L = [(name(i), set(K['L'][i])) for i in range(n)]
    sub = False
    if rng is not None:
        rng.shuffle(S)
        rng.shuffle(R)
        rng.shuffle(L)
        sub = rng.random() < 0.15          # an instance of a user subclass of Kripke
    if relabel:
        # two-step construction: bare structure first, then replace_labelling_function with a dict that is also
        # defined on objects that are NOT states (e.g. one labelling shared by several structures)
        k = new_kripke(S, [name(i) for i in (S0 or [])], R, None, sub=sub)
        Ld = dict(L)
        for j in range(n, n + 2):
            Ld[name(j)] = set(['p', 'q'])
        k.replace_labelling_function(Ld)
    else:
        k = new_kripke(as_container(S, rng), as_container([name(i) for i in (S0 or [])], rng), as_container(R, rng, pairs=True), dict(L), sub=sub)
    return k, name, {name(i): i for i in range(n)}


def project_kripke(k, index_of):
    """Deep projection of a Kripke object back to abstract form (for purity checks)."""
    try:
        states = sorted(index_of[s] for s in k.states())
        return {'S': states, 'S0': sorted(index_of[s] for s in k.S0),
                'R': sorted([index_of[a], index_of[b]] for a, b in k.transitions()),
                'L': [sorted(map(str, k.labels(s))) for s in sorted(k.states(), key=lambda x: index_of[x])],
                'Ltypes': sorted({type(x).__name__ for s in k.states() for x in k.labels(s)})}
    except Exception as ex:          # a projection failure is itself an observation
        return {'error': type(ex).__name__ + ': ' + str(ex)}


@contextlib.contextmanager
def quiet():
    """CTLS.modelcheck prints the TypeError text before re-raising; keep stdout clean."""
    buf = io.StringIO()
    with contextlib.redirect_stdout(buf):
        yield buf


_CALLS = [0]


def call_mc(logic, k, formula, F=None):
    """Call <logic>.modelcheck; returns ('ret', value) or ('exc', class name, message)."""
    mod = LANGS[logic]
    _CALLS[0] += 1
    form = _CALLS[0] % 6
    try:
        with quiet():
            # the same documented call in its legal forms: positional / keyword arguments, an explicit parser for text
            if form == 1:
                r = mod.modelcheck(kripke=k, formula=formula, F=F)
            elif form == 2 and isinstance(formula, str):
                r = mod.modelcheck(k, formula, mod.Parser(), F)
            elif form == 3:
                r = mod.modelcheck(k, formula, None, F)
            elif form == 4 and isinstance(formula, str):
                r = mod.modelcheck(k, formula, parser=mod.Parser(), F=F)
            elif F is None:
                r = mod.modelcheck(k, formula)
            else:
                r = mod.modelcheck(k, formula, F=F)
        return ('ret', r)
    except BaseException as ex:      # noqa: internal errors are observations, not crashes
        if isinstance(ex, (KeyboardInterrupt, SystemExit, MemoryError)) or type(ex).__name__ == 'CaseTimeout':
            raise                        # the harness's own per-case time limit is never an observation of the library
        return ('exc', exc_name(ex), str(ex)[:200])
