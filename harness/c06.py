"""C06 - answers are independent of presentation order, naming and hash seed."""
import json
import os
import subprocess
import sys
import concurrent.futures as cf

import gen
import lawfam
import mcfam
from pymc import T
from common import MachineryError, pmap
from gen import P, Q, TR, FA, L0, M0


def rename_atoms(f, m):
    if f[0] == 'ap':
        return ('ap', m.get(f[1], f[1]))
    return (f[0],) + tuple(rename_atoms(x, m) if isinstance(x, tuple) else x for x in f[1:])


def rename_K(K, m):
    return {'n': K['n'], 'R': K['R'], 'L': [sorted(m.get(a, a) for a in l) for l in K['L']]}


def extend_K(K, rnd):
    """add states unreachable from the old ones: they may point into the old part, never the converse"""
    n = K['n']
    k = rnd.choice([1, 2])
    R = [list(e) for e in K['R']]
    for s in range(n, n + k):
        R.append([s, rnd.randrange(n + k)])
        if rnd.random() < 0.6:
            R.append([s, rnd.randrange(n)])
        if rnd.random() < 0.5:
            R.append([s, s])
    R = [list(x) for x in sorted(set(map(tuple, R)))]
    L = [list(l) for l in K['L']] + [sorted(a for a in 'pq' if rnd.random() < 0.5) for _ in range(k)]
    return {'n': n + k, 'R': R, 'L': L}


def member_event(c):
    return mcfam.mc_event(c)['out']


def run(ctx):
    q = ctx.quick()
    rnd = ctx.rng
    nseeds = 4 if q else 32
    seeds = [0] + [rnd.randrange(1, 4294967295) for _ in range(nseeds - 1)]
    ctx.rule = ('cases = one abstract (logic, K, f) presented many ways: state bijections to ints/strings/tuples/mixed types, shuffled S/R/L '
                'collections, consistent atom renamings, added unreachable states, and fresh interpreters under %d PYTHONHASHSEED values; '
                'TLC checks that all presentations of a case map to one abstract answer (and, for added states, agree on the old states); '
                'distinct_nontrivial = distinct (logic,K,f) with answer neither empty nor all states' % nseeds)
    # design level: every iteration order of the order-sensitive algorithms gives one answer
    ctx.model('SCCAlgo.tla', 'SCCAlgo3.cfg', timeout=1500)
    ctx.model('MC_LTLAlgo.tla', 'LTLAlgo_q.cfg', timeout=1500)
    ctx.model('MC_Sem.tla', 'MC_Sem_ctl1.cfg', timeout=1500)     # Submodel: unreachable states do not matter
    # abstract cases
    base = []
    scope = gen.small_scope(3)
    for _ in range(600 if q else 5000):
        lg = rnd.choice(['CTL', 'LTL', 'LTL', 'CTLS', 'CTLS'])
        K = rnd.choice(scope) if rnd.random() < 0.6 else gen.rand_kripke(rnd, rnd.choice([3, 4, 5]))
        while True:
            if lg == 'CTL':
                f = gen.rand_ctl(rnd, rnd.choice([1, 2, 3]))
            elif lg == 'LTL':
                f = ('A', gen.rand_path(rnd, rnd.choice([2, 3]), leaves=[P, Q, P, Q, TR, FA]))
            else:
                f = gen.rand_ctls_state(rnd, 2)
            if gen.temporal_count(f) <= 4 and gen.size(f) <= 12:
                break
        base.append({'logic': lg, 'K': K, 'f': f})
    # order-sensitive mechanisms (SCC discovery order, tableau construction) on larger structures
    sens = [('CTL', ('E', ('G', P))), ('CTL', ('E', ('G', TR))), ('CTL', ('A', ('F', P))), ('CTL', ('E', ('G', ('or', P, Q)))),
            ('CTL', ('A', ('U', P, Q))), ('LTL', ('A', ('F', P))), ('LTL', ('A', ('G', ('F', P)))), ('LTL', ('A', ('U', P, Q))),
            ('CTLS', ('E', ('G', ('F', P)))), ('CTLS', ('A', ('F', ('G', P)))), ('CTLS', ('E', ('and', ('G', P), ('F', Q)))),
            ('CTL', ('E', ('U', P, Q))), ('CTL', ('E', ('U', P, ('not', P)))), ('CTL', ('A', ('R', Q, P))), ('CTL', ('E', ('R', P, Q))),
            # negated next-time formulas reach the LTL tableau through CTL* (tie-breaking of the closure order)
            ('CTLS', ('A', ('G', ('X', ('not', P))))), ('CTLS', ('A', ('and', Q, ('X', ('not', P))))), ('CTLS', ('E', ('and', ('F', ('X', ('not', P))), ('G', Q)))),
            ('CTLS', ('A', ('or', ('X', ('not', P)), ('G', ('not', ('X', Q)))))), ('LTL', ('A', ('X', ('or', P, Q)))), ('LTL', ('A', ('X', ('U', P, Q)))), ('LTL', ('A', ('G', ('X', ('or', Q, ('not', P)))))),
            ('LTL', ('A', ('G', ('X', ('not', P))))), ('LTL', ('A', ('U', ('not', ('X', P)), ('X', ('not', Q)))))]
    for _ in range(300 if q else 3000):
        lg, f = rnd.choice(sens)
        n = rnd.choice([4, 5, 6, 7]) if lg == 'CTL' else rnd.choice([3, 4, 5])
        base.append({'logic': lg, 'K': gen.rand_kripke(rnd, n, density=rnd.choice([0.2, 0.3, 0.4])), 'f': f})
    # shaped structures (a p-cycle, a p-tail leaving it, a non-p sink; >= 6 states): the answer of the SCC-based operators
    # must not depend on where the depth-first search happens to start
    for _ in range(80 if q else 1200):
        k, t = rnd.choice([3, 3, 4]), rnd.choice([2, 2, 3])
        n = k + t + 1
        R = {(i, (i + 1) % k) for i in range(k)} | {(rnd.randrange(k), k)} | {(k + i, k + i + 1) for i in range(t - 1)} | {(k + t - 1, k + t), (k + t, k + t)}
        base.append({'logic': rnd.choice(['CTL', 'CTL', 'CTLS']), 'K': {'n': n, 'R': [list(e) for e in sorted(R)], 'L': [['p']] * (k + t) + [['q']]},
                     'f': rnd.choice([('E', ('G', P)), ('A', ('F', ('not', P))), ('A', ('U', P, Q)), ('E', ('G', ('or', P, Q)))])})
    # (1) hash seeds: fresh interpreters, hash-sensitive namings
    hs_cases = []
    for i, b in enumerate(base):
        hs_cases.append({'tid': i, 'logic': b['logic'], 'K': b['K'], 'f': b['f'], 'naming': ['str', 'tuple', 'mixed'][i % 3],
                         'shuf': 1000 + i, 'mode': 'text' if i % 5 == 0 else 'raw' if i % 5 in (1, 2) else 'obj'})
    cf_path = os.path.join(ctx.tmp, 'c06_cases.json')
    json.dump(hs_cases, open(cf_path, 'w'))

    def run_seed(s):
        out = os.path.join(ctx.tmp, 'c06_out_%d.json' % s)
        env = dict(os.environ)
        env['PYTHONHASHSEED'] = str(s)
        p = subprocess.run([sys.executable, os.path.join(os.path.dirname(os.path.abspath(__file__)), 'c06_worker.py'), cf_path, out],
                           env=env, stdout=subprocess.PIPE, stderr=subprocess.STDOUT, text=True, timeout=3000)
        if p.returncode != 0:
            raise MachineryError('hash-seed worker failed: ' + p.stdout[-500:])
        return json.load(open(out))['outs']
    with cf.ThreadPoolExecutor(max_workers=16) as ex:
        per_seed = list(ex.map(run_seed, seeds))
    ctx.note('hash_seeds', seeds)
    # (2) presentations inside this interpreter
    groups = []
    for i, b in enumerate(base):
        K, f, lg = b['K'], b['f'], b['logic']
        members = [dict(logic=lg, f=f, naming='int')]
        for nm in ('str', 'tuple', 'mixed', 'neg', 'obj'):
            members.append(dict(logic=lg, f=f, naming=nm, shuf=rnd.randrange(1 << 30), mode=rnd.choice(['obj', 'text', 'raw'])))
        for m in ({'p': 'q', 'q': 'p'}, {'p': 'alpha', 'q': 'b_2'}, {'p': 'zz9', 'q': 'A1'}):
            members.append(dict(logic=lg, f=rename_atoms(T(f), m), K=rename_K(K, m), naming=rnd.choice(['int', 'str']), shuf=rnd.randrange(1 << 30)))
        g = {'law': 'equal', 'K': K, 'members': members, 'family': 'naming/order/atom renaming', 'pre': [per_seed[j][i] for j in range(len(seeds))]}
        groups.append(g)
        ext = [dict(logic=lg, f=f, naming='int')]
        for _ in range(2):
            ext.append(dict(logic=lg, f=f, K=extend_K(K, rnd), naming=rnd.choice(['int', 'str', 'tuple', 'obj']), shuf=rnd.randrange(1 << 30)))
        groups.append({'law': 'ext', 'K': K, 'members': ext, 'family': 'added unreachable states'})
    events = run_groups_with_pre(ctx, groups)
    for g, e in zip(groups, events):
        o = e['members'][0]['out']
        if 'ret' in o and 0 < len(o['ret']) < e['n']:
            ctx.nontrivial.add(json.dumps([g['members'][0]['logic'], g['K'], g['members'][0]['f']]))
    ctx.sample({'group': events[0]})
    ctx.sample({'group': events[1]})
    ctx.assumptions.append('hash seeds are a finite sample; the all-orders statement is at design level (SCCAlgo, LTLAlgo explore every iteration order)')


def _ev(g):
    e = lawfam.law_event(g)
    for j, out in enumerate(g.get('pre', [])):
        m0 = e['members'][0]
        e['members'].append({'logic': m0['logic'], 'f': m0['f'], 'mode': 'obj', 'pres': ['hashseed', j], 'out': out})
    return e


def run_groups_with_pre(ctx, groups):
    for i, g in enumerate(groups):
        g['tid'] = i
    events = pmap(_ev, groups)
    ctx.evaluations += sum(len(e['members']) for e in events)
    verdicts = ctx.validate('TraceLaws.tla', 'Trace.cfg', events)
    for tid, v in sorted(verdicts.items()):
        g, e = groups[tid], events[tid]
        outs = [[m['pres'], m['out']] for m in e['members']]
        ctx.violation('%s: %s; logic=%s K=%s f=%s outcomes=%s' % (
            g['family'], v['v'], e['members'][0]['logic'], json.dumps({'n': e['n'], 'R': e['R'], 'L': e['L']}),
            json.dumps(e['members'][0]['f']), json.dumps(outs)[:700]), {'group': g, 'event': e, 'verdict': v})
    return events


def replay(ctx, path):
    obj = json.load(open(path))
    g = obj['case']['group']
    events = run_groups_with_pre(ctx, [g])
    ctx.log('replayed (hash-seed members are taken from the recorded run): ' + json.dumps(events[0])[:600])
