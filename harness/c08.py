"""C08 - formula objects always belong to their logic; out-of-logic input is rejected."""
import json

import synfam
from synfam import union_trees

LANGN = ['PL', 'CTL', 'LTL', 'CTLS']


def run(ctx):
    q = ctx.quick()
    rnd = ctx.rng
    ctx.rule = ('cases = operator trees with the documented arities over the union alphabet (all trees to depth 2 over leaves {p,true}: '
                '5,986; depth 3 and n-ary and/or sampled) x 4 languages x {construct bottom-up with the language\'s own classes, '
                'cast_to from every language where the tree is constructible, pass to each modelcheck (also as text, also with a '
                'non-Kripke first argument)}; expected outcome from the documented membership predicates (Formulas.tla: IsPL, CTLState/'
                'CTLPath, LTLPath/LTLState, CTLSState/CTLSPath); distinct_nontrivial = distinct (tree, language) pairs where the '
                'tree is NOT a formula of the language (rejection exercised)')
    ctx.model('MC_Syntax.tla', 'Syntax_CTL.cfg', timeout=1500)      # membership predicates vs grammars vs printer
    P, TRU = ('ap', 'p'), ('true',)
    d2 = union_trees(2, [P, TRU])
    trees = d2 if not q else rnd.sample(d2, 3000)
    ctx.exhaustive = not q
    # depth 3 with one leaf symbol, sampled; n-ary and/or
    d1 = union_trees(1, [P])
    extra = []
    for _ in range(400 if q else 6000):
        o = rnd.choice(['not', 'X', 'F', 'G', 'A', 'E', 'imp', 'U', 'R', 'or', 'and'])
        pool = union_trees(2, [P])
        if o in ('not', 'X', 'F', 'G', 'A', 'E'):
            extra.append((o, rnd.choice(pool)))
        elif o in ('or', 'and') and rnd.random() < 0.5:
            extra.append((o,) + tuple(rnd.choice(d1) for _ in range(rnd.choice([3, 4]))))
        else:
            extra.append((o, rnd.choice(pool), rnd.choice(d1)))
    trees = trees + extra
    # print collisions: an atom whose (legal, quotable) name is exactly the printed form of another subtree of the same
    # formula - the library compares, hashes and memoises formulas by printed form
    import pymc
    subs = [('U', P, P), ('X', P), ('E', P), ('or', P, TRU), ('not', P), ('A', ('G', P)), ('E', ('X', P)), ('R', TRU, P), ('F', ('X', P))]
    coll = []
    for sub in subs:
        try:
            name = str(synfam.build(sub, pymc.CTLS))
        except Exception:
            continue
        twin = ('ap', name)
        for wrap in (lambda z: z, lambda z: ('X', z), lambda z: ('E', ('X', z)), lambda z: ('not', z), lambda z: ('A', ('F', z)), lambda z: ('G', z)):
            for op in ('and', 'or', 'U', 'imp'):
                coll.append((op, wrap(twin), wrap(sub)))
                coll.append((op, wrap(sub), wrap(twin)))
            coll.append(('A', ('or', wrap(twin), wrap(sub))))
    trees = trees + coll
    cases = []
    # deep guards: an otherwise in-logic formula of depth 3-5 with ONE offending subformula placed at a random leaf
    # (a quantified formula inside an LTL path formula; a bare path operator under a CTL connective)
    import gen
    def plant(f, sub, r):
        if f[0] in ('ap', 'true', 'false'):
            return sub
        i = r.randrange(1, len(f))
        return f[:i] + (plant(f[i], sub, r),) + f[i + 1:]
    deep = []
    for _ in range(500 if q else 8000):
        d = rnd.choice([2, 3, 4])
        g = gen.rand_path(rnd, d, leaves=[('ap', 'p'), ('ap', 'q_1')], nary=False)
        bad = rnd.choice([('E', ('X', ('ap', 'p'))), ('A', ('G', ('ap', 'p'))), ('not', ('E', ('F', ('ap', 'q_1')))), ('E', ('ap', 'p'))])
        f = ('A', plant(g, bad, rnd))
        if gen.temporal_count(f) <= 5:
            deep.append({'op': 'mcguard', 'logic': 'LTL', 'f': f, 'kripke': True, 'built_in': 'CTLS'})
        h = gen.rand_ctl(rnd, d, leaves=[('ap', 'p'), ('ap', 'q_1')], nary=False)
        badp = rnd.choice([('X', ('ap', 'p')), ('G', ('ap', 'q_1')), ('U', ('ap', 'p'), ('ap', 'q_1')), ('F', ('not', ('ap', 'p')))])
        f2 = plant(h, badp, rnd)
        deep.append({'op': 'mcguard', 'logic': 'CTL', 'f': f2, 'kripke': True, 'built_in': 'CTLS'})
        deep.append({'op': 'construct', 'lang': 'LTL', 'sub_lang': 'CTLS', 'f': f}) if f[1][0] not in ('ap', 'true', 'false') else None
    for f in trees:
        for lg in LANGN:
            cases.append({'op': 'construct', 'lang': lg, 'f': f, 'style': 'obj'})
            if rnd.random() < 0.3:
                cases.append({'op': 'construct', 'lang': lg, 'f': f, 'style': 'raw'})
                cases.append({'op': 'construct', 'lang': lg, 'f': f, 'style': 'ops'})
                cases.append({'op': 'construct', 'lang': lg, 'f': f, 'style': rnd.choice(['strsub', 'rewrap'])})
            if f[0] not in ('ap', 'true', 'false'):
                for sl in LANGN:
                    if sl != lg and rnd.random() < (0.35 if q else 1.0):
                        cases.append({'op': 'construct', 'lang': lg, 'sub_lang': sl, 'f': f})
        for src in LANGN:
            for dst in LANGN:
                if src != dst and (not q or rnd.random() < 0.5):
                    cases.append({'op': 'cast', 'src': src, 'dst': dst, 'f': f})
        for lg in ('CTL', 'LTL', 'CTLS'):
            cases.append({'op': 'mcguard', 'logic': lg, 'f': f, 'kripke': True, 'built_in': 'CTLS'})
            if rnd.random() < 0.15:
                cases.append({'op': 'mcguard', 'logic': lg, 'f': f, 'kripke': True, 'mode': 'text'})
            if rnd.random() < 0.1:
                cases.append({'op': 'mcguard', 'logic': lg, 'f': f, 'kripke': False, 'notk': rnd.choice(['DiGraph', 'None'])})
    cases += [c for c in deep if c]
    keep = synfam.run_events(ctx, cases)
    counts = {}
    for c, ev in keep:
        key = ev['op'] + (':rejected' if 'exc' in ev['out'] else ':accepted')
        counts[key] = counts.get(key, 0) + 1
        if ev['op'] == 'construct' and 'exc' in ev['out']:
            ctx.nontrivial.add(json.dumps([ev['f'], ev['lang']]))
    ctx.note('outcome_counts', counts)
    for c, ev in keep[:3] + keep[-2:]:
        ctx.sample(ev)
    ctx.assumptions.append('modelcheck guards are exercised with CTL* objects and text; whether a modelcheck must ACCEPT an object of another language whose tree is in its logic is not decided (the property only requires rejection outside the logic)')


def replay(ctx, path):
    synfam.replay(ctx, path)
