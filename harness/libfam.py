"""modelcheck call histories over a pool of caller-owned objects (C07, C19): one event per step
with the outcome and the deep projection of every pooled Kripke object, formula object and
result set.  TraceLib.tla judges the events."""
import json
import random

import pymc
import mcfam
from pymc import LANGS, NAMINGS, to_obj, to_text, to_tree, T, call_mc

FOREIGN = 999
ODD_ATOMS = {'p': 'not', 'q': 'A G (x U y)'}      # atom names that look like operators / formulas


def present_kripke(K, pres, rng):
    """pres: {naming, shuf, junk (add non-string / odd labels), odd (rename atoms to odd names)}"""
    name = NAMINGS[pres.get('naming', 'int')]
    n = K['n']
    S = [name(i) for i in range(n)]
    R = [(name(a), name(b)) for a, b in K['R']]
    amap = ODD_ATOMS if pres.get('odd') else {}
    L = []
    for i in range(n):
        lab = set(amap.get(a, a) for a in K['L'][i])
        if pres.get('junk'):
            lab |= set(rng.sample([7, (1, 2), 'A', 'true ', 3.5, frozenset([1]), 'U', ''], rng.randint(0, 3)))
        L.append((name(i), lab))
    if pres.get('shuf') is not None:
        rng.shuffle(S), rng.shuffle(R), rng.shuffle(L)
    S0 = [name(i) for i in range(n) if i % 2 == 0]
    how = rng.randrange(6)
    if how == 0:
        # two-step construction: the labelling function is installed afterwards and is also defined on objects that are
        # not states of this structure (one labelling shared by several models)
        k = pymc.new_kripke(S, S0, R, None, sub=rng.random() < 0.3)
        Ld = dict(L)
        for j in range(n, n + 2):
            Ld[name(j)] = set(['p', 'q']) | set(amap.values())
        k.replace_labelling_function(Ld)
    else:
        k = pymc.new_kripke(pymc.as_container(S, rng), pymc.as_container(S0, rng), pymc.as_container(R, rng, pairs=True), dict(L), sub=(how == 1))
    return k, name, {name(i): i for i in range(n)}


def rename_atoms(f, m):
    if f[0] == 'ap':
        return ('ap', m.get(f[1], f[1]))
    return (f[0],) + tuple(rename_atoms(x, m) if isinstance(x, tuple) else x for x in f[1:])


def proj_kripke(k, idx, amap_inv):
    try:
        states = sorted(k.states(), key=lambda s: idx.get(s, 10 ** 6) if _hashable(s) else 10 ** 6)
        return {'S': [idx.get(s, -1) for s in states], 'S0': sorted(idx.get(s, -1) for s in k.S0),
                'R': sorted([idx.get(a, -1), idx.get(b, -1)] for a, b in k.transitions()),
                'L': [sorted(repr(a) for a in k.labels(s)) for s in states],
                'attrs': sorted(vars(k))}          # a call must not leave new attributes (hidden state) on the caller's object
    except Exception as ex:
        return {'S': [-2], 'S0': [], 'R': [], 'L': [], 'attrs': ['projection failed: ' + type(ex).__name__ + ':' + str(ex)[:60]]}


def _hashable(x):
    try:
        hash(x)
        return True
    except TypeError:
        return False


def proj_formula(obj):
    if isinstance(obj, str):
        return {'tree': ['text'], 'text': obj}
    try:
        return {'tree': to_tree(obj), 'text': str(obj), 'attrs': _attr_names(obj)}
    except Exception as ex:
        return {'tree': ['error'], 'text': type(ex).__name__, 'attrs': []}


def _attr_names(obj):
    names = set()
    stack = [obj]
    while stack:
        o = stack.pop()
        names.update(vars(o))
        if o.__class__.__name__ not in ('Bool', 'AtomicProposition'):
            stack.extend(o.subformulas())
    return sorted(names)


def _plain_atoms(f):
    import re
    if f[0] == 'ap':
        return re.match(r'^[a-zA-Z_][a-zA-Z_0-9]*$', f[1]) is not None and f[1] not in ('true', 'false', 'not', 'or', 'and', 'A', 'E', 'X', 'F', 'G', 'U', 'R')
    return all(_plain_atoms(x) for x in f[1:] if isinstance(x, tuple))


def run_history(h):
    """h: {trace, ks:[K], fs:[{logic,f}], pres:[per-K presentation], steps:[...], limit}"""
    rng = random.Random(h.get('seed', 0))
    kobjs = [present_kripke(K, pr, rng) for K, pr in zip(h['ks'], h['pres'])]
    odd = [bool(pr.get('odd')) for pr in h['pres']]
    fobj = {}
    ftxt = {}

    def formula(j, mode, k):
        fl = h['fs'][j]
        f = T(fl['f'])
        if odd[k]:
            f = rename_atoms(f, ODD_ATOMS)
        key = (j, odd[k])
        if mode == 'text' and not odd[k] and _plain_atoms(f):
            if key not in ftxt:
                ftxt[key] = to_text(f, fl['logic'])
            return ftxt[key]
        if key not in fobj:
            fobj[key] = to_obj(f, LANGS[fl['logic']], share={} if (h.get('seed', 0) + j) % 3 == 0 else None)
        return fobj[key]
    # every formula object exists from the start, so that its projection can be compared throughout
    for b, bl in enumerate(h.get('bad', [])):
        fobj[('bad', b + 1)] = to_obj(T(bl['f']), pymc.CTLS)
    for j in range(len(h['fs'])):
        for k in range(len(h['ks'])):
            formula(j, 'obj', k)
    results = {}

    first = {}
    drift = [0]

    def projection():
        pr = {'ks': [proj_kripke(k, idx, None) for k, _, idx in kobjs],
              'fs': [proj_formula(fobj[key]) for key in sorted(fobj, key=str)],
              'res': {str(r): _proj_res(v, kobjs[kk][2]) for r, (v, kk) in results.items()}}
        # attribute NAMES of the caller's objects: a new attribute (e.g. a correctly maintained cache) is not by itself a
        # change of the structure or the formula - it is reported as drift (diagnostic), the verdict is behavioural
        # (deep projection of states/transitions/labels/tree, and the twin call below)
        for kind in ('ks', 'fs'):
            for i, x in enumerate(pr[kind]):
                a0 = first.setdefault((kind, i), x.get('attrs'))
                if x.get('attrs') != a0 and not (x.get('attrs') or [''])[0].startswith('projection failed'):
                    drift[0] += 1
                    x['attrs'] = a0
        return pr
    events = [{'trace': h['trace'], 'i': 0, 'op': 'init', 'ks': h['ks'], 'fs': [{'logic': x['logic'], 'f': x['f']} for x in h['fs']],
               'proj': projection()}]
    for st in h['steps']:
        ev = dict(st)
        ev.update({'trace': h['trace'], 'i': len(events)})
        if st['op'] == 'call':
            k, j = st['k'] - 1, st['j'] - 1
            kobj, name, idx = kobjs[k]
            n = h['ks'][k]['n']
            fair = st['fair']
            F = pymc.present_F(None if fair == 'none' else [list(range(n))] if fair == 'all' else [] if fair == 'empty' else [[0], [i for i in range(n) if i % 2 == 1] or [0]], name, rng)
            fo = formula(j, st['mode'], k)
            out = mcfam.with_time_limit(lambda: call_mc(h['fs'][j]['logic'], kobj, fo, F=F), h.get('limit', 20.0))
            ev['out'] = mcfam.project_result(out, idx)
            if out[0] == 'ret':
                results[st['r']] = (out[1], k)
                if not isinstance(fo, str):
                    # the result depends only on the arguments: an EQUAL formula given as a freshly built object (no history)
                    # must give an equal set on the same structure
                    fl = h['fs'][j]
                    f2 = T(fl['f'])
                    if odd[k]:
                        f2 = rename_atoms(f2, ODD_ATOMS)
                    twin = mcfam.with_time_limit(lambda: call_mc(fl['logic'], kobj, to_obj(f2, LANGS[fl['logic']]), F=F), h.get('limit', 20.0))
                    if twin[0] != 'timeout':
                        tp = mcfam.project_result(twin, idx)
                        ev['out']['twin'] = tp['ret'] if 'ret' in tp else [-9]
        elif st['op'] == 'badcall':
            k = st['k'] - 1
            kobj, name, idx = kobjs[k]
            n = h['ks'][k]['n']
            fair = st['fair']
            F = pymc.present_F(None if fair == 'none' else [list(range(n))] if fair == 'all' else [] if fair == 'empty' else [[0]], name, rng)
            bl = h['bad'][st['b'] - 1]
            if ('bad', st['b']) not in fobj:
                fobj[('bad', st['b'])] = to_obj(T(bl['f']), pymc.CTLS)
            out = mcfam.with_time_limit(lambda: call_mc(bl['logic'], kobj, fobj[('bad', st['b'])], F=F), h.get('limit', 20.0))
            ev['out'] = {'exc': out[1]} if out[0] == 'exc' else {'ret': 'set'} if out[0] == 'ret' else {'skipped': 'timeout'}
        elif st['op'] in ('editlabel', 'editedge'):
            kobj, name, idx = kobjs[st['k'] - 1]
            try:
                if st['op'] == 'editlabel':
                    # the caller edits a label set by whatever public route the library offers: the set handed out by labels(s)
                    # (as at the pinned commit), add_label/remove_label, or replace_labelling_function with an edited copy;
                    # if none of them changes the structure the step is a no-op (flagged, the model then changes nothing)
                    sname, want = name(st['s']), bool(st['add'])
                    def reflected():
                        return (st['a'] in kobj.labels(sname)) == want
                    if not reflected():
                        lab = kobj.labels(sname)
                        if isinstance(lab, set):
                            (lab.add if want else lab.discard)(st['a'])
                    if not reflected() and hasattr(kobj, 'add_label' if want else 'remove_label'):
                        try:
                            getattr(kobj, 'add_label' if want else 'remove_label')(sname, st['a'])
                        except Exception:
                            pass
                    if not reflected():
                        try:
                            cur = {x: set(kobj.labels(x)) for x in kobj.states()}
                            (cur[sname].add if want else cur[sname].discard)(st['a'])
                            kobj.replace_labelling_function(cur)
                        except Exception:
                            pass
                    if not reflected():
                        ev['noop'] = 1
                else:
                    kobj.add_edge(name(st['s']), name(st['d']))
            except Exception as ex:
                ev['err'] = type(ex).__name__
        elif st['op'] == 'mutate':
            if st['r'] in results:
                v, kk = results[st['r']]
                try:
                    if isinstance(v, frozenset):
                        ev['noop'] = 1           # an immutable result cannot be edited at all: the strongest form of ownership
                    elif st['kind'] == 'clear':
                        v.clear()
                    elif st['kind'] == 'add':
                        v.add(FOREIGN)
                    else:
                        idx = kobjs[kk][2]
                        proj = _proj_res(v, idx)
                        if proj:
                            m = min(proj)
                            for x in list(v):
                                if (x == FOREIGN and m == FOREIGN) or (x != FOREIGN and idx.get(x) == m):
                                    v.discard(x)
                                    break
                            if st['kind'] == 'swap':
                                v.add(FOREIGN)
                except Exception as ex:
                    ev['mutate_error'] = type(ex).__name__
        elif st['op'] == 'drop':
            results.pop(st['r'], None)
        ev['proj'] = projection()
        events.append(ev)
    if drift[0]:
        events[0]['attr_drift'] = drift[0]
    return events


def _proj_res(v, idx):
    out = []
    try:
        for x in v:
            if x == FOREIGN and not (isinstance(x, bool)):
                out.append(FOREIGN)
            else:
                out.append(idx.get(x, 998) if _hashable(x) else 998)
    except TypeError:
        return [997]
    return sorted(out)
