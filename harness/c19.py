"""C19 - every well-formed query returns a fresh set of the structure's own states."""
import c07


def run(ctx):
    ctx.rule = ('cases = call histories (call; mutate the returned set: clear / add a foreign element / discard; call again; call on '
                'another structure) over structures whose states are strings, tuples, negative ints or mixed types, whose labels '
                'contain ints, tuples, floats, frozensets and operator-looking names, with formula atoms named like operators or '
                'absent from K, for all three logics with and without fairness constraints; TLC checks that each result is a set, '
                'contains only states of K, equals the specified answer, and that no other pooled object or result changed; '
                'distinct_nontrivial = distinct histories with a repeated call after an intervening mutation')
    c07.run(ctx, c19=True)


def replay(ctx, path):
    c07.replay(ctx, path)
