"""C01 - CTL model checking returns exactly the satisfying states."""
import itertools

import gen
import bigfam
import mcfam
from gen import P, Q, TR, FA, L0, M0


def subset_formula(X, n):
    X = sorted(X)
    if not X:
        return FA
    if len(X) == n:
        return TR
    if len(X) == 1:
        return ('ap', 's%d' % X[0])
    return ('or',) + tuple(('ap', 's%d' % i) for i in X)


def operand_complete(n, rels):
    """every CTL operator pair and every Boolean connective applied to ALL pairs of state sets"""
    subsets = [c for r in range(n + 1) for c in itertools.combinations(range(n), r)]
    fs = [subset_formula(X, n) for X in subsets]
    forms = gen.ctl_q(fs) + gen.bool1(fs)
    L = [['s%d' % i] for i in range(n)]
    for R in rels:
        K = {'n': n, 'R': [list(e) for e in R], 'L': L}
        for f in forms:
            yield {'logic': 'CTL', 'K': K, 'f': f}


def run(ctx):
    q = ctx.quick()
    rnd = ctx.rng
    ctx.rule = ('cases = (Kripke structure, CTL state formula) presented to CTL.modelcheck; families: operand-set-complete '
                '(every operator on all pairs of state subsets of every total graph <=3 nodes), small scope x depth<=1, '
                'catalogue x depth 2, seeded random (<=6 states, depth<=4), text inputs via the parser; '
                'distinct_nontrivial = distinct (K,f) whose answer is neither empty nor all states')
    # R2: oracle self-check (fixpoint CTL semantics = tableau semantics, semantic laws)
    ctx.model('MC_Sem.tla', 'MC_Sem_ctl1.cfg', timeout=1500)
    if not q:
        ctx.model('MC_Sem.tla', 'MC_Sem_ctl2.cfg', timeout=3000)
    # R1: Layer B, the labelling algorithm as coded refines SatCTL for all operand sets
    ctx.model('MC_CTLAlgo.tla', 'CTLAlgo_q.cfg' if q else 'CTLAlgo_t.cfg', timeout=3000)

    cases = []
    # (i) operand-set-complete family
    for n in (1, 2):
        cases += list(operand_complete(n, gen.total_relations(n)))
    rels3 = list(gen.total_relations(3))
    if q:
        rels3 = rnd.sample(rels3, 12)
    fam_i = cases + list(operand_complete(3, rels3))
    ctx.note('operand_complete_graphs_n3', len(rels3))
    ctx.exhaustive = not q
    # (ii) small scope x depth <= 1 ; catalogue x depth 2
    d1 = gen.dedup(L0 + gen.ctl_q(L0) + gen.bool1(L0))
    scope = gen.small_scope(2) if q else gen.small_scope(3)
    fam_ii = [{'logic': 'CTL', 'K': K, 'f': f} for K in scope for f in d1]
    cat = gen.catalogue(40)
    ctlm = gen.dedup(M0 + gen.ctl_q(M0) + [('not', f) for f in M0])
    d2 = gen.ctl_q(ctlm) + [('not', f) for f in gen.ctl_q(M0)] + gen.bool1(gen.ctl_q([P]), gen.ctl_q([Q]))
    if q:
        fam_ii += [{'logic': 'CTL', 'K': K, 'f': f} for K in cat for f in d1]
        fam_ii += [{'logic': 'CTL', 'K': rnd.choice(cat), 'f': f} for f in rnd.sample(d2, 4000)]
    else:
        fam_ii += [{'logic': 'CTL', 'K': K, 'f': f} for K in cat for f in d2]
    # (iii) seeded random beyond the scope
    fam_iii = []
    for i in range(5000 if q else 200000):
        n = rnd.choice([2, 3, 4, 4, 5, 5, 6, 6])
        K = gen.rand_kripke(rnd, n, density=rnd.choice([0.2, 0.35, 0.5]))
        fam_iii.append({'logic': 'CTL', 'K': K, 'f': gen.rand_ctl(rnd, rnd.choice([2, 3, 4])),
                        'naming': rnd.choice(['int', 'str', 'tuple', 'obj']), 'shuf': rnd.randrange(1 << 30)})
    # n-ary and/or (arity 3-4) over CTL operands
    pool = L0 + gen.ctl_q(M0)
    fam_n = []
    for _ in range(1500 if q else 30000):
        f = (rnd.choice(['and', 'or']),) + tuple(rnd.choice(pool) for _ in range(rnd.choice([3, 3, 4])))
        r = rnd.random()
        if r < 0.3:
            f = ('not', f)
        elif r < 0.6:
            f = rnd.choice(gen.ctl_q([f], [rnd.choice(pool)]))
        fam_n.append({'logic': 'CTL', 'K': rnd.choice(cat), 'f': f})
    fam_iii = fam_iii + fam_n
    # print collisions: an atom whose name is exactly the printed form of a subformula of the same formula (the
    # labelling table and formula equality go through the printed form)
    import pymc, synfam
    fam_pc = []
    subs = [('or', P, Q), ('and', P, Q), ('not', P), ('imp', P, Q), ('E', ('X', P)), ('A', ('U', P, Q)), ('E', ('G', Q)), ('or', P, ('not', Q), TR)]
    for _ in range(600 if q else 12000):
        sub = rnd.choice(subs)
        name = str(synfam.build(sub, pymc.CTL))
        twin = ('ap', name)
        a, b = rnd.choice([lambda z: z, lambda z: ('E', ('F', z)), lambda z: ('not', z), lambda z: ('A', ('X', z))]), \
            rnd.choice([lambda z: z, lambda z: ('A', ('G', z)), lambda z: ('E', ('U', Q, z)), lambda z: ('not', z)])
        f = (rnd.choice(['and', 'or', 'imp']), a(twin), b(sub)) if rnd.random() < 0.5 else (rnd.choice(['and', 'or', 'imp']), a(sub), b(twin))
        K = gen.rand_kripke(rnd, rnd.choice([2, 3, 4]))
        K['L'] = [sorted(set(l) | ({name} if rnd.random() < 0.5 else set())) for l in K['L']]
        fam_pc.append({'logic': 'CTL', 'K': K, 'f': f, 'mode': rnd.choice(['obj', 'ctls-obj'])})
    # (iv) the same formulas as text (CTL.Parser inside modelcheck) and as CTL* objects (cast inside)
    fam_iv = []
    for c in rnd.sample(fam_ii, min(len(fam_ii), 3000 if q else 40000)) + rnd.sample(fam_iii, 1000 if q else 20000):
        fam_iv.append(dict(c, mode=rnd.choice(['text', 'ctls-obj', 'raw'])))
    # tall formulas: a specification folded from 100-140 requirements with a binary connective
    ctl_bases = [('E', ('G', P)), ('A', ('F', Q)), ('E', ('U', P, Q)), ('A', ('G', ('E', ('F', P)))), ('A', ('R', P, Q))]
    ctl_leaves = (P, Q, ('not', P), TR, ('E', ('X', Q)), ('A', ('X', P)))
    fam_t = [{'logic': 'CTL', 'K': gen.rand_kripke(rnd, rnd.choice([3, 4])), 'f': gen.tall_path(rnd, rnd.randint(98, 140), leaves=ctl_leaves, base=rnd.choice(ctl_bases)),
              'late_edge': False} for _ in range(24 if q else 300)]
    # medium structures (6-10 states, several SCCs, tails, sinks) under the SCC- and reachability-based operators
    fam_m = []
    for _ in range(2500 if q else 40000):
        n = rnd.randint(6, 10)
        K = gen.rand_kripke(rnd, n, density=rnd.choice([0.12, 0.2, 0.3]))
        if rnd.random() < 0.5:      # one atom almost everywhere, the other rare
            hi, lo = rnd.choice([('p', 'q'), ('q', 'p')])
            K = dict(K, L=[sorted(([hi] if rnd.random() < 0.8 else []) + ([lo] if rnd.random() < 0.15 else [])) for _i in range(n)])
        a, b = rnd.choice(M0), rnd.choice(M0 + gen.ctl_q([P])[:6])
        f = rnd.choice(gen.ctl_q([a], [b]))
        if rnd.random() < 0.3:
            f = rnd.choice(gen.ctl_q([f], [rnd.choice(M0)]))
        fam_m.append({'logic': 'CTL', 'K': K, 'f': f, 'naming': rnd.choice(['int', 'str', 'tuple', 'obj']), 'shuf': rnd.randrange(1 << 30)})
    # shaped structures: a cycle of p-states, a p-tail that leaves the cycle and ends in a non-p sink, optional chords and a
    # second cycle - under every presentation order (the SCC routine's result must not depend on where the search starts)
    for _ in range(600 if q else 10000):
        k, t = rnd.choice([3, 3, 4]), rnd.choice([2, 2, 3])
        n = k + t + 1
        cyc, tail, sink = list(range(k)), list(range(k, k + t)), k + t
        R = {(cyc[i], cyc[(i + 1) % k]) for i in range(k)} | {(rnd.choice(cyc), tail[0])} | {(tail[i], tail[i + 1]) for i in range(t - 1)}
        R |= {(tail[-1], sink), (sink, sink)}
        if rnd.random() < 0.3:
            R.add((rnd.choice(tail), rnd.choice(cyc + tail)))
        if rnd.random() < 0.3:
            R.add((rnd.choice(cyc), rnd.choice(cyc)))
        L = [['p'] for _i in range(k + t)] + [['q']]
        if rnd.random() < 0.3:
            L[rnd.randrange(k + t)] = ['p', 'q']
        f = rnd.choice([('E', ('G', P)), ('A', ('F', ('not', P))), ('E', ('U', P, Q)), ('A', ('G', ('E', ('F', Q)))), ('E', ('G', ('or', P, Q))),
                        ('A', ('U', P, Q)), ('E', ('X', ('E', ('G', P)))), ('not', ('E', ('G', P))), ('E', ('R', Q, P))])
        fam_m.append({'logic': 'CTL', 'K': {'n': n, 'R': [list(e) for e in sorted(R)], 'L': L}, 'f': f,
                      'naming': rnd.choice(['int', 'str', 'tuple', 'obj']), 'shuf': rnd.randrange(1 << 30)})
    memo_binding(ctx, [dict(c) for c in rnd.sample(fam_ii + fam_iii, 1500 if q else 20000)])
    mcfam.run_families(ctx, [('operand_complete', fam_i), ('scope', fam_ii), ('random', fam_iii),
                             ('text_or_cast', fam_iv), ('print_collision', fam_pc), ('tall', fam_t), ('medium', fam_m)])
    # large lassos (LargeShapes.tla): structures with more than a thousand states, answers by closed forms
    bigfam.run_big(ctx, bigfam.cases(rnd, ['mc'], 8 if q else 80, logics=('CTL',)))


def memo_binding(ctx, cases):
    """Layer-B binding (diagnostic): every entry of the real labelling table is an exact satisfaction set"""
    from common import pmap
    lists = pmap(mcfam.ctl_memo_events, cases)
    if any(x is None for x in lists):
        ctx.note('mechanism_binding', 'drift(_checkStateFormula no longer exists)')
        return
    events = []
    for evs in lists:
        for e in evs:
            if 'drift' in e:
                ctx.note('mechanism_binding', 'drift(%s)' % e['drift'])
                return
            e['tid'] = len(events)
            events.append(e)
    bad = ctx.validate('TraceSem.tla', 'Trace.cfg', events)
    bad = {t: v for t, v in bad.items() if not v['v'].startswith('ORACLE')}
    ctx.note('memo_entries_validated', len(events))
    ctx.note('mechanism_binding', 'ok' if not bad else 'drift(memo): %d of %d memo entries are not exact satisfaction sets' % (len(bad), len(events)))
    if bad:
        t = sorted(bad)[0]
        ctx.log('mechanism drift (diagnostic only): memo entry %s = %s, exact set %s' % (events[t]['f'], events[t]['out']['ret'], bad[t].get('exp')))


def replay(ctx, path):
    if bigfam.maybe_replay(ctx, path):
        return
    mcfam.replay_cases(ctx, path)
