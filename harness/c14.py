"""C14 - Kripke structures are always total, fully labelled, and copy faithfully."""
import itertools
import json

import gen
import graphfam
import kripkefam
from common import pmap


def subsets(xs):
    return [list(c) for r in range(len(xs) + 1) for c in itertools.combinations(xs, r)]


def ctor_trace(S, S0, R, Lkv, X, n, **kw):
    calls = [{'op': 'new', 'S': S, 'S0': S0, 'R': R, 'Lkv': Lkv, 'new': 1},
             {'op': 'clone', 'g': 1, 'new': 2},
             {'op': 'sub', 'X': X, 'g': 1, 'new': 3},
             {'op': 'labels', 'v': X[0] if X else 0, 'g': 1},
             {'op': 'next', 'v': n, 'g': 1},          # n is never a state: must raise RuntimeError
             {'op': 'labels', 'v': n, 'g': 1},
             {'op': 'next', 'v': X[-1] if X else 0, 'g': 2},
             {'op': 'transitions', 'g': 1}, {'op': 'states', 'g': 2}]
    b = {'calls': calls}
    b.update(kw)
    return b


def finish(ctx, behs):
    for t, b in enumerate(behs):
        b['trace'] = t
    evlists = pmap(kripkefam.run_behaviour, behs)
    events = []
    for evs in evlists:
        for ev in evs:
            ev['tid'] = len(events)
            events.append(ev)
    ctx.evaluations += len(events)
    verdicts = ctx.validate('TraceKripke.tla', 'TraceKripke.cfg', events)
    for tid, v in sorted(verdicts.items()):
        ev = events[tid]
        b = behs[ev['trace']]
        if v['v'].startswith('ORACLE'):
            from common import MachineryError
            raise MachineryError('spec inconsistency ' + v['v'])
        if any(c['op'] in ('add_node', 'add_edge', 'label_add', 'relabel') for c in b['calls'][:ev['i'] + 1]):
            # growth beyond the property: once a history has used an inherited mutator the structure is no longer "a
            # constructed structure" in C14's sense; the as-coded model of the mutators is a diagnostic binding only
            ctx.extra['mutator_model_drift'] = ctx.extra.get('mutator_model_drift', 0) + 1
            ctx.log('mutator model drift (diagnostic only): %s at step %d of %s' % (v['v'], ev['i'], json.dumps(b['calls'])[:300]))
            continue
        ctx.violation('%s: %s at step %d of history %s (outcome %s, projection %s)' % (
            b.get('family', ''), v['v'], ev['i'], json.dumps(b['calls'])[:500], json.dumps(ev['out'])[:150], json.dumps(ev['pool'])[:300]),
            {'behaviour': b, 'event': ev, 'verdict': v})
    return events


def run(ctx):
    q = ctx.quick()
    rnd = ctx.rng
    ctx.rule = ('cases = Kripke(S,S0,R,L) argument combinations (non-total relations, S0 outside S, labels for non-states, set/list '
                'label values, shuffled collections, several state namings) followed by clone / get_substructure(V) / labels / next '
                '(states and non-states) with the projection of every pooled structure incl. label-set identities after each call; '
                'exhaustive over 2 state names, sampled over 3 and 4; TLC-simulated histories; distinct_nontrivial = distinct '
                'argument tuples with a total relation on >=2 states')
    ctx.model('MC_KripkeLib.tla', 'KripkeLib_mc.cfg', timeout=3000, heap='16g')
    behs = []

    def args_space(n, atoms):
        names = list(range(n))
        pairs = [[a, b] for a in names for b in names]
        labs = subsets(list(atoms))
        return names, pairs, labs

    # exhaustive over 2 names, atoms {p}
    names, pairs, labs = args_space(2, 'p')
    for S in subsets(names):
        for S0 in subsets(names):
            for R in subsets(pairs):
                for keys in subsets(names):
                    for vals in itertools.product(labs, repeat=len(keys)):
                        Lkv = [[k, list(v)] for k, v in zip(keys, vals)]
                        for X in (subsets(names) if not q else [rnd.choice(subsets(names))]):
                            behs.append(ctor_trace(S, S0, R, Lkv, X, 2, family='exhaustive 2 names',
                                                   naming=rnd.choice(['int', 'str', 'tuple', 'obj']), lstyle=rnd.choice(['set', 'list', 'frozenset']),
                                                   shuf=rnd.randrange(1 << 30)))
    ctx.exhaustive = True
    for n, count in ((3, 6000 if q else 120000), (4, 3000 if q else 60000)):
        names, pairs, labs = args_space(n, 'pq')
        for _ in range(count):
            total = rnd.random() < 0.7
            R = [p for p in pairs if rnd.random() < rnd.choice([0.2, 0.4, 0.6])]
            S = [v for v in names if rnd.random() < 0.6]
            if total:       # bias towards total relations so that the success path is well covered
                V = set(S) | {v for p in R for v in p}
                for v in V:
                    if not any(p[0] == v for p in R):
                        R.append([v, rnd.choice(sorted(V))])
            S0 = [v for v in names + [n] if rnd.random() < 0.3]
            Lkv = [[k, list(rnd.choice(labs))] for k in names + [n] if rnd.random() < 0.6]
            X = [v for v in names if rnd.random() < 0.6]
            behs.append(ctor_trace(S, S0, R, Lkv, X, n + 1, family='sampled %d names' % n, naming=rnd.choice(['int', 'str', 'tuple', 'mixed', 'obj', 'objmix']),
                                   lstyle=rnd.choice(['set', 'list', 'frozenset']), shuf=rnd.randrange(1 << 30),
                                   args=rnd.choice(['full', 'full', 'none-if-empty'])))
    # clustered structures with 5-8 states: a kept part that is total on its own and a dropped part whose states have their
    # successors among the dropped ones (the induced relation on V is total only as a whole, not state by state in any order)
    for _ in range(1500 if q else 10000):
        a, b = rnd.choice([3, 3, 4, 5]), rnd.choice([2, 2, 3])
        n = a + b
        A, B = list(range(a)), list(range(a, n))
        R = {(A[i], A[(i + 1) % a]) for i in range(a)} | {(B[i], B[(i + 1) % b]) for i in range(b)}
        R |= {(x, y) for x in A for y in A if rnd.random() < 0.2} | {(x, y) for x in B for y in B if rnd.random() < 0.3}
        R |= {(rnd.choice(A), rnd.choice(B)) for _i in range(rnd.choice([1, 1, 2]))}
        if rnd.random() < 0.3:
            R.add((rnd.choice(B), rnd.choice(A)))
        X = list(A) if rnd.random() < 0.6 else [v for v in range(n) if rnd.random() < 0.65]
        if rnd.random() < 0.2:
            X = list(B)
        Lkv = [[k, sorted(x for x in 'pq' if rnd.random() < 0.5)] for k in range(n) if rnd.random() < 0.7]
        behs.append(ctor_trace(list(range(n)), [v for v in range(n) if rnd.random() < 0.3], [list(e) for e in sorted(R)], Lkv, X, n + 1,
                               family='clustered 5-8 states', naming=rnd.choice(['int', 'str', 'tuple', 'obj']), lstyle='set', shuf=rnd.randrange(1 << 30)))
    sim = graphfam.simulate(ctx, 'MC_KripkeLib.tla', 'KripkeLib_sim.cfg', 500 if q else 10000, 40, ctx.seed + 3)
    seen = set()
    for calls in sim:
        key = json.dumps(calls)
        if key in seen:       # Emit fires once per state with a full history; Pick steps repeat it
            continue
        seen.add(key)
        behs.append({'calls': calls, 'family': 'tlc-simulated history', 'naming': rnd.choice(['int', 'str']),
                     'lstyle': rnd.choice(['set', 'list']), 'shuf': rnd.randrange(1 << 30)})
    # spec growth beyond the property: the mutators Kripke inherits from DiGraph and the set handed out by
    # labels(s) - the model (KripkeLib with Mutators = TRUE) says what the code does; any drift is reported
    res, _ = ctx.model('MC_KripkeLib.tla', 'KripkeLib_mut.cfg', timeout=3000, heap='16g', expect_ok=False)
    ctx.note('inherited_mutators_break_KripkeInv_at_design_level', 'KripkeInv' in res['violated'])
    simm = graphfam.simulate(ctx, 'MC_KripkeLib.tla', 'KripkeLib_simmut.cfg', 300 if q else 5000, 40, ctx.seed + 4)
    seen = set()
    for calls in simm:
        key = json.dumps(calls)
        if key not in seen:
            seen.add(key)
            behs.append({'calls': calls, 'family': 'tlc-simulated history with inherited mutators', 'naming': rnd.choice(['int', 'str']),
                         'lstyle': 'set', 'shuf': rnd.randrange(1 << 30)})
    fams = {}
    for b in behs:
        fams[b['family']] = fams.get(b['family'], 0) + 1
    ctx.note('histories_by_family', fams)
    events = finish(ctx, behs)
    ok_ctor = 0
    for ev in events:
        if ev['op'] == 'new' and 'ret' in ev['out'] and len(ev['pool'].get(str(ev['new']), {}).get('S', [])) >= 2:
            ctx.nontrivial.add(json.dumps([ev['S'], ev['S0'], ev['R'], ev['Lkv']]))
        if ev['op'] == 'new':
            ctx.count('ctor_ok' if 'ret' in ev['out'] else 'ctor_raised')
        if ev['op'] == 'sub':
            ctx.count('sub_ok' if 'ret' in ev['out'] else 'sub_raised')
    for b in behs[1000:1002]:
        ctx.sample({'history': b['calls'], 'outcomes': [e['out'] for e in events if e['trace'] == b['trace']]})
    ctx.sample({'tlc_simulated_history': sim[0] if sim else None})


def replay(ctx, path):
    obj = json.load(open(path))
    events = finish(ctx, [obj['case']['behaviour']])
    ctx.log('replayed: ' + json.dumps([e['out'] for e in events])[:500])
