"""C07 - model checking is a pure function of its arguments."""
import json

import gen
import bigfam
import graphfam
import libfam
from common import pmap, MachineryError
from gen import P, Q, TR, FA, L0, M0

SIM_KS = [{'n': 3, 'R': [[0, 1], [1, 2], [2, 2], [2, 0]], 'L': [['p'], ['q'], ['p', 'q']]},
          {'n': 2, 'R': [[0, 0], [0, 1], [1, 0]], 'L': [['p'], []]},
          {'n': 3, 'R': [[0, 0], [0, 1], [1, 1], [1, 2], [2, 1]], 'L': [['p'], ['p'], ['q']]}]
SIM_FS = [{'logic': 'CTL', 'f': ('E', ('U', P, Q))},
          {'logic': 'CTL', 'f': ('and', ('A', ('G', ('E', ('F', P)))), ('not', Q))},
          {'logic': 'LTL', 'f': ('A', ('G', ('F', P)))},
          {'logic': 'LTL', 'f': ('A', ('imp', ('X', Q), ('U', P, Q)))},
          {'logic': 'CTLS', 'f': ('A', ('G', ('or', Q, ('E', ('X', P)))))},
          {'logic': 'CTLS', 'f': ('and', ('E', ('F', ('G', P))), ('E', ('and', ('X', P), ('F', Q))))}]


BAD = [{'logic': 'LTL', 'f': ('A', ('F', ('E', ('G', P))))}, {'logic': 'CTL', 'f': ('A', ('G', ('F', P)))},
       {'logic': 'CTLS', 'f': ('U', P, ('X', Q))}, {'logic': 'CTL', 'f': ('X', P)}, {'logic': 'LTL', 'f': ('E', ('F', P))}]


def finish(ctx, hists):
    for t, h in enumerate(hists):
        h['trace'] = t
        h.setdefault('bad', BAD)
    evlists = pmap(libfam.run_history, hists)
    events = []
    for evs in evlists:
        for ev in evs:
            ev['tid'] = len(events)
            events.append(ev)
    ctx.evaluations += sum(1 for e in events if e['op'] == 'call')
    nskip = sum(1 for e in events if 'skipped' in e.get('out', {}))
    if nskip:
        ctx.count('skipped_timeouts', nskip)
    nd = sum(e.get('attr_drift', 0) for e in events)
    if nd:
        ctx.extra['attribute_drift_on_callers_objects'] = ctx.extra.get('attribute_drift_on_callers_objects', 0) + nd
        ctx.log('diagnostic: %d projections show a new attribute name on a caller-owned Kripke/formula object (not a verdict)' % nd)
    verdicts = ctx.validate('TraceLib.tla', 'TraceLib.cfg', events)
    for tid, v in sorted(verdicts.items()):
        ev = events[tid]
        h = hists[ev['trace']]
        ctx.violation('%s: %s at step %d (%s) of history with K pool %s, formulas %s, steps %s' % (
            h.get('family', ''), v['v'], ev['i'], json.dumps({k: ev[k] for k in ev if k in ('op', 'k', 'j', 'mode', 'fair', 'r', 'kind', 'out')}),
            json.dumps(h['ks'])[:300], json.dumps(h['fs'])[:300], json.dumps(h['steps'])[:400]),
            {'history': h, 'event': {k: ev[k] for k in ev if k != 'proj'}, 'verdict': v})
    return events


c19_mode = [False]


def random_history(rnd, nk, nf, steps, families, fairs=('none', 'none', 'all', 'empty', 'some')):
    ks = [gen.rand_kripke(rnd, rnd.choice([2, 3, 3, 4])) for _ in range(nk)]
    fs = []
    while len(fs) < nf:
        lg = rnd.choice(['CTL', 'LTL', 'CTLS'])
        f = gen.rand_ctl(rnd, 2) if lg == 'CTL' else ('A', gen.rand_path(rnd, 2, leaves=M0)) if lg == 'LTL' else gen.rand_ctls_state(rnd, 2, leaves=M0)
        if gen.temporal_count(f) <= 3 and gen.size(f) <= 10:
            fs.append({'logic': lg, 'f': f})
    # one structure of the pool already uses the names the fair checkers generate ('fair', 'fair0') as ordinary labels:
    # the auxiliary label then differs from structure to structure, while the formula objects are shared by all of them
    if rnd.random() < 0.45:
        K = rnd.choice(ks)
        for i in range(K['n']):
            if rnd.random() < 0.6:
                K['L'][i] = sorted(set(K['L'][i]) | {rnd.choice(['fair', 'fair', 'fair0'])})
    # restricted-alphabet formulas with recurring subformulas (the algorithms then work on the caller's own objects)
    for pos in range(nf):
        if rnd.random() < 0.3:
            lg = rnd.choice(['CTL', 'CTL', 'LTL', 'CTLS'])
            f = gen.rand_restricted(rnd, lg, 3, leaves=[P, Q])
            if lg == 'LTL':
                f = ('A', f)
            elif lg == 'CTLS':
                f = ('E', f)
            if gen.temporal_count(f) <= 4 and gen.size(f) <= 14:
                fs[pos] = {'logic': lg, 'f': f}
    # boundary answers: formulas that hold everywhere / nowhere (their result is the whole state set or the empty set -
    # the natural candidates for a result that is not a fresh object), at top level and under each operator shape
    if rnd.random() < 0.6:
        taut = rnd.choice([TR, ('or', P, ('not', P)), ('not', FA), ('imp', P, P)])
        shapes = [lambda z: ('E', ('G', z)), lambda z: ('A', ('G', z)), lambda z: ('E', ('X', z)), lambda z: ('E', ('F', z)), lambda z: z,
                  lambda z: ('E', ('U', z, z)), lambda z: ('not', z), lambda z: ('A', ('F', ('not', z))), lambda z: ('E', ('R', z, z)),
                  lambda z: ('A', ('X', z)), lambda z: ('and', z, z), lambda z: ('E', ('G', ('not', z)))]
        for pos in range(min(nf, rnd.choice([1, 2, 3]))):
            lg = rnd.choice(['CTL', 'CTL', 'CTLS', 'LTL'])
            sh = rnd.choice(shapes)
            f = sh(taut)
            if lg == 'LTL':
                f = ('A', rnd.choice([('G', taut), ('F', taut), taut, ('not', taut), ('X', taut), ('U', taut, taut)]))
            fs[nf - 1 - pos] = {'logic': lg, 'f': f}
    # twins: two different formulas that PRINT identically (an atom named like a subformula); the structure carries that
    # atom as an ordinary label, so the two have different answers
    if rnd.random() < 0.6:
        import pymc, synfam
        sub = rnd.choice([('or', P, Q), ('and', P, Q), ('not', P), ('imp', P, Q)])
        name = str(synfam.build(sub, pymc.CTL))
        wrap = rnd.choice([lambda z: ('E', ('F', z)), lambda z: ('A', ('G', z)), lambda z: ('and', z, Q), lambda z: ('A', ('U', Q, z)), lambda z: ('imp', z, P)])
        lg = rnd.choice(['CTL', 'CTLS'])
        tw = [{'logic': lg, 'f': wrap(sub)}, {'logic': lg, 'f': wrap(('ap', name))}]
        rnd.shuffle(tw)
        fs[0:2] = tw
        for K in ks:
            for i in range(K['n']):
                if rnd.random() < 0.4:
                    K['L'][i] = sorted(set(K['L'][i]) | {name})
    st = []
    live = []
    nxt = 1
    edges = [[list(e) for e in K['R']] for K in ks]
    for _ in range(steps):
        r = rnd.random()
        if r < 0.6 or not live:
            k, j = rnd.randint(1, nk), rnd.randint(1, nf)
            if st and rnd.random() < 0.35:        # repeat an earlier call exactly
                prev = rnd.choice([s for s in st if s['op'] == 'call'] or [None])
                if prev:
                    k, j = prev['k'], prev['j']
            st.append({'op': 'call', 'k': k, 'j': j, 'mode': rnd.choice(['obj', 'obj', 'text']), 'fair': rnd.choice(fairs), 'r': nxt})
            live.append(nxt)
            nxt += 1
        elif r < 0.64 and not c19_mode[0]:
            k = rnd.randint(1, nk)
            n = ks[k - 1]['n']
            if rnd.random() < 0.7:
                st.append({'op': 'editlabel', 'k': k, 's': rnd.randrange(n), 'a': rnd.choice(['p', 'q']), 'add': rnd.random() < 0.6})
            else:
                cand = [(a, b) for a in range(n) for b in range(n) if [a, b] not in edges[k - 1]]
                if cand:
                    a, b = rnd.choice(cand)
                    edges[k - 1].append([a, b])
                    st.append({'op': 'editedge', 'k': k, 's': a, 'd': b})
        elif r < 0.68:
            st.append({'op': 'badcall', 'k': rnd.randint(1, nk), 'b': rnd.randint(1, len(BAD)), 'fair': rnd.choice(fairs)})
        elif r < 0.9:
            st.append({'op': 'mutate', 'r': rnd.choice(live), 'kind': rnd.choice(['clear', 'add', 'discard', 'swap', 'swap'])})
        else:
            x = rnd.choice(live)
            live.remove(x)
            st.append({'op': 'drop', 'r': x})
    return {'ks': ks, 'fs': fs, 'steps': st}


def run(ctx, c19=False):
    q = ctx.quick()
    rnd = ctx.rng
    c19_mode[0] = c19         # C19's odd/junk presentations rename labels, so caller edits of K are exercised by C07 only
    if not c19:
        ctx.rule = ('cases = call histories over a pool of caller-owned Kripke structures and formula objects: modelcheck calls of all '
                    'three logics (object and text formulas; no fairness, F satisfied by every path, F = [], a proper F), caller '
                    'mutations of returned sets, repeated calls; after every step the deep projection of every pooled object is '
                    'compared; histories are generated by TLC -simulate from Library.tla (spec -> code) and by seeded random drivers '
                    '(code -> spec); distinct_nontrivial = distinct histories with a repeated call after an intervening call or mutation')
    ctx.model('MC_Library.tla', 'Library_mcq.cfg' if q else 'Library_mc.cfg', timeout=3000)
    hists = []
    sim = graphfam.simulate(ctx, 'MC_Library.tla', 'Library_sim.cfg', 300 if q else 6000, 14, ctx.seed + 11)
    for steps in sim:
        pres = [{'naming': rnd.choice(['int', 'str', 'tuple', 'obj']), 'shuf': rnd.randrange(1 << 30)} for _ in SIM_KS]
        hists.append({'ks': SIM_KS, 'fs': SIM_FS, 'pres': pres, 'steps': steps, 'family': 'tlc-simulated history', 'seed': rnd.randrange(1 << 30)})
    for _ in range(250 if q else 5000):
        h = random_history(rnd, 3, 5, 30 if not c19 else 16, None)
        if c19:
            # constants and bare atoms as whole queries (shortest code paths return internal objects most easily)
            h['fs'][0] = {'logic': rnd.choice(['CTL', 'CTLS']), 'f': rnd.choice([TR, FA, ('not', FA), P, ('not', P), ('or', P, TR)])}
            h['pres'] = [{'naming': rnd.choice(['str', 'tuple', 'mixed', 'neg', 'obj', 'objmix']), 'shuf': rnd.randrange(1 << 30),
                          'junk': rnd.random() < 0.7, 'odd': rnd.random() < 0.4} for _ in h['ks']]
            for fl in h['fs']:
                if rnd.random() < 0.3:       # atoms that do not occur in K at all
                    fl['f'] = libfam.rename_atoms(libfam.T(fl['f']), {'q': 'absent_atom'})
        else:
            h['pres'] = [{'naming': rnd.choice(['int', 'str', 'tuple', 'obj']), 'shuf': rnd.randrange(1 << 30)} for _ in h['ks']]
        h['family'] = 'random history'
        h['seed'] = rnd.randrange(1 << 30)
        hists.append(h)
    # short object-formula histories: one structure, three formulas of the restricted alphabets with recurring
    # subformulas (no rewriting: the algorithms receive the caller's own objects), each called twice, no fairness
    if not c19:
        for _ in range(400 if q else 3000):
            K = gen.rand_kripke(rnd, rnd.choice([2, 3, 4]))
            fs = []
            while len(fs) < 3:
                lg = rnd.choice(['CTL', 'CTL', 'LTL', 'CTLS'])
                f = gen.rand_restricted(rnd, lg, 3, leaves=[P, Q, P, Q, TR])
                f = ('A', f) if lg == 'LTL' else ('E', f) if lg == 'CTLS' else f
                if gen.temporal_count(f) <= 4 and 3 <= gen.size(f) <= 14:
                    fs.append({'logic': lg, 'f': f})
            steps = []
            for r, j in enumerate([1, 2, 3, 1, 2, 3]):
                steps.append({'op': 'call', 'k': 1, 'j': j, 'mode': 'obj', 'fair': 'none', 'r': r + 1})
            hists.append({'ks': [K], 'fs': fs, 'steps': steps, 'family': 'short history, restricted formulas with recurring subformulas',
                          'pres': [{'naming': rnd.choice(['int', 'str', 'obj']), 'shuf': rnd.randrange(1 << 30)}], 'seed': rnd.randrange(1 << 30)})
    # short histories around boundary answers: a query whose answer is the whole state set (or the empty set) under every
    # operator shape, an edit of the returned set (size-preserving or not), the same query again, then other queries
    for _ in range(500 if q else 3000):
        K = gen.rand_kripke(rnd, rnd.choice([2, 3, 4]))
        taut = rnd.choice([TR, ('or', P, ('not', P)), ('not', FA), ('imp', P, P)])
        if rnd.random() < 0.3:       # an atom that happens to hold everywhere in this structure
            K = dict(K, L=[sorted(set(l) | {'p'}) for l in K['L']])
            taut = P
        shapes = [lambda z: ('E', ('G', z)), lambda z: ('A', ('G', z)), lambda z: ('E', ('X', z)), lambda z: ('E', ('F', z)), lambda z: z,
                  lambda z: ('E', ('U', z, z)), lambda z: ('not', ('not', z)), lambda z: ('A', ('F', z)), lambda z: ('E', ('R', z, z)),
                  lambda z: ('A', ('X', z)), lambda z: ('and', z, z), lambda z: ('or', z, Q), lambda z: ('not', z), lambda z: ('E', ('G', ('not', z)))]
        fs = []
        for _i in range(3):
            lg = rnd.choice(['CTL', 'CTL', 'CTLS', 'LTL'])
            f = rnd.choice(shapes)(taut)
            if lg == 'LTL':
                f = ('A', rnd.choice([('G', taut), ('F', taut), taut, ('X', taut), ('U', taut, taut), ('not', taut)]))
            fs.append({'logic': lg, 'f': f})
        steps, r = [], 1
        for j in (1, 2, 3):
            steps.append({'op': 'call', 'k': 1, 'j': j, 'mode': rnd.choice(['obj', 'obj', 'text']), 'fair': 'none', 'r': r})
            steps.append({'op': 'mutate', 'r': r, 'kind': rnd.choice(['swap', 'swap', 'add', 'clear', 'discard'])})
            steps.append({'op': 'call', 'k': 1, 'j': j, 'mode': 'obj', 'fair': 'none', 'r': r + 1})
            steps.append({'op': 'call', 'k': 1, 'j': rnd.choice([1, 2, 3]), 'mode': 'obj', 'fair': 'none', 'r': r + 2})
            r += 3
        pres = [{'naming': rnd.choice(['int', 'str', 'tuple', 'obj'] if not c19 else ['str', 'tuple', 'mixed', 'neg', 'obj', 'objmix']), 'shuf': rnd.randrange(1 << 30)}]
        hists.append({'ks': [K], 'fs': fs, 'steps': steps, 'family': 'short history around boundary answers', 'pres': pres, 'seed': rnd.randrange(1 << 30)})
    # medium sparse structures (9-12 states, every atom in one or two states): many different next-time / reachability queries
    # interleaved on ONE structure object (an index or cache kept on the structure must not be disturbed by a query)
    for _ in range(150 if q else 1000):
        n = rnd.randint(9, 12)
        K = gen.rand_kripke(rnd, n, density=rnd.choice([0.1, 0.15, 0.2]))
        K = dict(K, L=[sorted(x for x in 'pq' if rnd.random() < 0.15) for _i in range(n)])
        lits = [P, Q, ('and', P, Q), ('or', P, Q)]
        fs = []
        for _i in range(5):
            a = rnd.choice(lits)
            fs.append({'logic': 'CTL', 'f': rnd.choice([('E', ('X', a)), ('A', ('X', ('not', a))), ('E', ('X', ('E', ('X', a)))), ('E', ('F', a)), ('A', ('X', a)),
                                                       ('E', ('U', ('not', a), rnd.choice(lits))), ('E', ('X', ('not', a)))])})
        steps = []
        order = [rnd.randint(1, 5) for _i in range(10)]
        for r, j in enumerate(order):
            steps.append({'op': 'call', 'k': 1, 'j': j, 'mode': rnd.choice(['obj', 'obj', 'text']), 'fair': 'none', 'r': r + 1})
        hists.append({'ks': [K], 'fs': fs, 'steps': steps, 'family': 'medium sparse structure, interleaved queries',
                      'pres': [{'naming': rnd.choice(['int', 'str', 'obj']), 'shuf': rnd.randrange(1 << 30)}], 'seed': rnd.randrange(1 << 30)})
    if c19:          # every well-formed query returns (no internal error such as RecursionError) also on large structures
        bigfam.run_big(ctx, bigfam.cases(rnd, ['mc'], 8 if q else 80, logics=('CTL', 'CTL', 'LTL', 'CTLS')))
    events = finish(ctx, hists)
    for h in hists:
        calls = [(s['k'], s['j'], s['fair']) for s in h['steps'] if s['op'] == 'call']
        if len(calls) != len(set(calls)):
            ctx.nontrivial.add(json.dumps(h['steps']))
    fams = {}
    for h in hists:
        fams[h['family']] = fams.get(h['family'], 0) + 1
    ctx.note('histories_by_family', fams)
    ctx.note('fair_modes_called', {f: sum(1 for e in events if e.get('fair') == f) for f in ('none', 'all', 'empty', 'some')})
    ctx.sample({'family': hists[0]['family'], 'steps': hists[0]['steps'],
                'outcomes': [e.get('out') for e in events if e['trace'] == 0 and e['op'] == 'call']})
    h = hists[-1]
    ctx.sample({'family': h['family'], 'ks': h['ks'], 'fs': h['fs'], 'pres': h['pres'], 'steps': h['steps']})


def replay(ctx, path):
    if bigfam.maybe_replay(ctx, path):
        return
    obj = json.load(open(path))
    events = finish(ctx, [obj['case']['history']])
    ctx.log('replayed: ' + json.dumps([e.get('out') for e in events if e['op'] == 'call'])[:600])
