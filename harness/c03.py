"""C03 - CTL* model checking is exact for arbitrary quantifier/path-operator nesting."""
import gen
import bigfam
import mcfam
import pymc
from gen import P, Q, TR, FA, L0, M0

ROUTES = {'ctl': 0, 'ltl_fallback_A': 0, 'e_as_not_a_not': 0}
_installed = []


def install_route_probe():
    """Layer-B binding without source hooks: wrap the module-level private function that
    dispatches a quantified subformula and count which route it takes."""
    if _installed:
        return _installed[0]
    cm = pymc.CTLS.model_checking
    ok = hasattr(cm, '_checkQuantifiedFormula') and hasattr(cm, 'LTL') and hasattr(cm, 'CTL')
    if ok:
        orig = cm._checkQuantifiedFormula
        ltl_mod = cm.LTL
        orig_ltl = ltl_mod.modelcheck
        state = {'depth': 0, 'ltl': 0}

        def ltl_probe(*a, **k):
            state['ltl'] += 1
            return orig_ltl(*a, **k)

        def probe(kripke, formula, *a, **k):
            before = state['ltl']
            ltl_mod.modelcheck = ltl_probe
            try:
                return orig(kripke, formula, *a, **k)
            finally:
                ltl_mod.modelcheck = orig_ltl
                if state['ltl'] > before:
                    if formula.__class__.__name__ == 'E':
                        ROUTES['e_as_not_a_not'] += 1
                    else:
                        ROUTES['ltl_fallback_A'] += 1
                else:
                    ROUTES['ctl'] += 1
        cm._checkQuantifiedFormula = probe
    _installed.append(ok)
    return ok


def event(case):
    ok = install_route_probe()
    before = dict(ROUTES)
    ev = mcfam.mc_event(case)
    if ok:                  # the dispatch probe is diagnostic; when the private helper no longer exists nothing is recorded
        ev['routes'] = {k: ROUTES[k] - before[k] for k in ROUTES}
    return ev


def subst_leaves(rnd, g, pool):
    """replace some leaves of path formula g by quantified formulas from pool (nesting 2)"""
    if g[0] in ('ap', 'true', 'false'):
        return rnd.choice(pool) if rnd.random() < 0.5 else g
    return (g[0],) + tuple(subst_leaves(rnd, x, pool) for x in g[1:])


def run(ctx):
    q = ctx.quick()
    rnd = ctx.rng
    ctx.rule = ('cases = (Kripke structure, CTL* state formula) presented to CTLS.modelcheck; families: A/E over all path formulas '
                '<=4 nodes on structures <=2 states and a 3-state catalogue, quantifier nesting 2 by substituting quantified '
                'formulas for leaves, Boolean combinations of quantified formulas, seeded random <=5 states depth<=3; the three '
                'dispatch routes (CTL, LTL fallback for A, E as not A not) are counted; distinct_nontrivial = distinct (K,f) with '
                'answer neither empty nor all states')
    ctx.model('MC_Sem.tla', 'MC_Sem_path1.cfg', timeout=1500)
    ctx.model('MC_Sem.tla', 'MC_Sem_ctl1.cfg', timeout=1500)
    # R1: the elimination loop (fresh atoms on a private clone, left-to-right threading) as coded
    ctx.model('MC_CTLSAlgo.tla', 'CTLSAlgo_q.cfg' if q else 'CTLSAlgo_t.cfg', timeout=3000)
    res, _ = ctx.model('MC_CTLSAlgo.tla', 'CTLSAlgo_capture.cfg', timeout=600, expect_ok=False)
    ctx.note('fresh_atom_capture_counterexample_at_design_level (observation KF-4, inputs not generated here)', 'ElimExact' in res['violated'])
    forms3 = gen.path_formulas_upto(3)
    forms4 = gen.path_formulas_upto(4)
    k2 = gen.small_scope(2)
    cat = gen.catalogue(40)
    if q:
        fam_a = [{'K': K, 'f': (qq, g)} for K in k2 for g in gen.samp(rnd, forms3, 60) for qq in 'AE']
        fam_a += [{'K': rnd.choice(k2), 'f': (rnd.choice('AE'), g)} for g in gen.samp(rnd, forms4, 1200)]
        fam_b = [{'K': rnd.choice(cat), 'f': (rnd.choice('AE'), g)} for g in gen.samp(rnd, forms4, 1200)]
    else:
        fam_a = [{'K': K, 'f': (qq, g)} for K in k2 for g in forms4 for qq in 'AE']
        fam_b = [{'K': K, 'f': (qq, g)} for K in cat for g in forms4 for qq in 'AE']
        ctx.exhaustive = True
    # nesting 2: quantified subformulas in leaf positions, and Boolean combinations at the top
    inner = [(qq, g) for qq in 'AE' for g in gen.path_un(M0) + gen.path_bi(M0)]
    fam_c = []
    scope3 = gen.small_scope(3)
    while len(fam_c) < (1500 if q else 40000):
        g = subst_leaves(rnd, rnd.choice(forms4), inner)
        f = (rnd.choice('AE'), g)
        r = rnd.random()
        if r < 0.15:
            f = ('not', f)
        elif r < 0.3:
            f = (rnd.choice(['and', 'or', 'imp']), f, rnd.choice(inner + M0))
        if gen.size(f) <= 12:
            fam_c.append({'K': rnd.choice(scope3), 'f': f})
    fam_d = []
    while len(fam_d) < (1000 if q else 30000):
        f = gen.rand_ctls_state(rnd, rnd.choice([2, 3]))
        if gen.size(f) <= 12 and gen.temporal_count(f) <= 5:
            fam_d.append({'K': gen.rand_kripke(rnd, rnd.choice([2, 3, 4, 5])), 'f': f,
                          'naming': rnd.choice(['int', 'str', 'tuple', 'obj']), 'shuf': rnd.randrange(1 << 30)})
    # n-ary and/or (arity 3-4) directly under a quantifier, mixing state and path operands
    temporal = [g for g in gen.path_un(M0) + gen.path_bi(M0) if g[0] in 'XFGUR']
    temporal += [('not', g) for g in temporal[:10]] + [(o, g) for o in 'XFG' for g in temporal[:6]]
    fam_n = []
    for _ in range(3000 if q else 60000):
        k = rnd.choice([3, 3, 4])
        ops = [rnd.choice(temporal) if rnd.random() < 0.55 else rnd.choice(M0 + [TR, FA]) if rnd.random() < 0.5 else rnd.choice(inner)
               for _ in range(k)]
        g = (rnd.choice(['and', 'or']),) + tuple(ops)
        if rnd.random() < 0.2:
            g = (rnd.choice(['not', 'X', 'F', 'G']), g)
        if gen.temporal_count(g) <= 4:
            fam_n.append({'K': rnd.choice(scope3), 'f': (rnd.choice('AE'), g)})
    # negated / nested next-time operators under non-CTL quantifiers (closure ordering of `not X`, `X not`)
    xn = [('X', ('not', x)) for x in M0] + [('not', ('X', x)) for x in M0] + [('X', ('X', ('not', P))), ('X', ('not', ('X', Q)))]
    fam_x = []
    for _ in range(800 if q else 15000):
        a, b = rnd.choice(xn), rnd.choice(xn + M0 + gen.path_un(M0))
        g = rnd.choice([('G', a), ('and', b, a), ('or', a, b), ('U', b, a), ('F', ('and', a, b)), ('G', ('or', a, b)), ('R', a, b)])
        fam_x.append({'K': rnd.choice(scope3), 'f': (rnd.choice('AE'), g)})
    # until / release whose operands are Boolean combinations MIXING path and state operands, in both operand orders
    # (classification of an operand as state or path formula; operands that look beyond the point where the until is met)
    fam_m = []
    lv = [P, Q, ('not', P), ('not', Q)]
    for _ in range(3000 if q else 8000):
        a, b, c = rnd.choice(lv), rnd.choice(lv), rnd.choice(lv)
        t1 = rnd.choice([('G', a), ('F', a), ('X', a), ('U', a, c), ('X', ('X', a)), ('G', ('F', a))])
        st = rnd.choice([b, b, ('E', ('X', b)), ('A', ('F', b)), TR])
        o = rnd.choice(['or', 'and', 'imp'])
        left = (o, t1, st) if rnd.random() < 0.6 else (o, st, t1)
        if o != 'imp' and rnd.random() < 0.25:
            left = (o, t1, st, rnd.choice(lv)) if rnd.random() < 0.5 else (o, rnd.choice(lv), t1, st)
        right = rnd.choice([('X', c), ('F', c), ('G', c), c, ('X', ('not', a)), ('and', ('X', c), b)])
        g = (rnd.choice('UR'), left, right) if rnd.random() < 0.8 else (rnd.choice('UR'), right, left)
        if gen.temporal_count(g) <= 4:
            if rnd.random() < 0.5:
                K = rnd.choice(scope3)
            else:           # branching structures in which one atom holds almost everywhere (continuations that differ late)
                K = gen.rand_kripke(rnd, rnd.choice([3, 4, 4]), density=0.5)
                hi, lo = rnd.choice([('p', 'q'), ('q', 'p')])
                K = dict(K, L=[sorted(([hi] if rnd.random() < 0.75 else []) + ([lo] if rnd.random() < 0.2 else [])) for _ in range(K['n'])])
            fam_m.append({'K': K, 'f': (rnd.choice('EEEEA'), g)})
    # recurrence / persistence formulas (fairness-like conjunctions of GF, G F over until/release, ...) on structures with
    # several strongly connected components, tails and one-shot states
    fam_r = []
    for _ in range(700 if q else 5000):
        r = rnd.random()
        K = gen.multi_core_kripke(rnd)[0] if r < 0.35 else gen.core_tail_kripke(rnd)[0] if r < 0.6 else gen.rand_kripke(rnd, rnd.choice([4, 5, 6]), density=rnd.choice([0.2, 0.3]))
        g = gen.recurrence_formulas(rnd)
        if gen.temporal_count(g) > 4 or len(fam_r) >= (350 if q else 2000):
            continue
        f = (rnd.choice('EEA'), g)
        if rnd.random() < 0.2:
            f = ('A', ('G', ('imp', Q, ('not', ('E', g))))) if gen.temporal_count(g) <= 4 else f
        fam_r.append({'K': K, 'f': f})
    # generalised fairness under E on sparse structures with 5-7 states (a conjunction of recurrences is satisfiable only on a
    # cycle that meets EVERY conjunct; one-shot states off the cycles must not count)
    lits = [P, Q, ('not', P), ('not', Q)]
    for _ in range(350 if q else 2000):
        K = gen.rand_kripke(rnd, rnd.choice([5, 6, 7]), density=rnd.choice([0.12, 0.18, 0.25]))
        k = 2
        g = ('and',) + tuple(('G', ('F', rnd.choice(lits))) for _i in range(k))
        f = ('E', g) if rnd.random() < 0.8 else ('A', ('G', ('imp', rnd.choice(lits), ('not', ('E', g)))))
        fam_r.append({'K': K, 'f': f})
    # long sibling quantified subformulas (their auxiliary names are long; one of them is often unsatisfiable)
    fam_long = []
    while len(fam_long) < (250 if q else 10000):
        g1, g2 = gen.rand_long_path(rnd), gen.rand_long_path(rnd)
        q1, q2 = rnd.choice(['AA', 'EE', 'AA', 'AE'])
        if rnd.random() < 0.5:      # make the first sibling unsatisfiable / valid so that it labels no state / every state
            big = gen.rand_prop(rnd, 8)
            g1 = rnd.choice([('and', ('G', big), ('F', ('not', big))), ('and', ('G', P), ('F', ('not', P)), ('X', big)), ('or', ('G', big), ('F', ('not', big)))])
        if rnd.random() < 0.4:
            # siblings whose printed forms share a long prefix (> 64 characters) and differ only at the end; the first
            # labels no state (or every state), the second some
            big = gen.rand_prop(rnd, 8)
            pre = rnd.choice([('or', big, ('not', big)), ('imp', big, big), big])
            o = rnd.choice(['and', 'and', 'or'])
            t1 = rnd.choice([('and', ('G', P), ('F', ('not', P))), ('G', ('and', Q, ('not', Q))), ('F', FA)]) if o == 'and' else rnd.choice([('G', TR), ('or', ('G', P), ('F', ('not', P)))])
            t2 = rnd.choice([('F', Q), ('G', P), ('X', ('not', P)), ('U', P, Q), ('G', ('F', Q))])
            g1, g2 = (o, pre, t1), (o, pre, t2)
            if rnd.random() < 0.3:
                g1, g2 = g2, g1
        if gen.temporal_count(g1) > 3 or gen.temporal_count(g2) > 3:
            continue
        f = (rnd.choice(['and', 'imp', 'or']), (q1, g1), (q2, g2))
        if rnd.random() < 0.3:
            f = ('not', f)
        fam_long.append({'K': rnd.choice(scope3), 'f': f})
    shp = gen.shared_polarity_formulas()
    fam_s = [{'K': rnd.choice(scope3), 'f': (rnd.choice('AE'), g)} for g in shp for _ in range(2 if q else 10)]
    fam_e = [dict(c, mode=rnd.choice(['text', 'raw'])) for c in gen.samp(rnd, fam_a + fam_c + fam_n, 1200 if q else 15000)]
    fam_t = [{'K': rnd.choice(scope3), 'f': (rnd.choice('AE'), gen.tall_path(rnd, rnd.randint(98, 130))), 'late_edge': False} for _ in range(16 if q else 60)]
    fams = [('tall', fam_t), ('mixed-operand until', fam_m), ('recurrence', fam_r), ('scope2', fam_a), ('catalogue3', fam_b), ('nested', fam_c), ('nary', fam_n), ('next-negation', fam_x), ('shared-polarity', fam_s), ('long-siblings', fam_long), ('random', fam_d), ('text', fam_e)]
    for _, fam in fams:
        for c in fam:
            c['logic'] = 'CTLS'
    events, bad = mcfam.run_families(ctx, fams, event_fn=event)
    routes = {k: 0 for k in ROUTES}
    binding = 'ok'
    for ev in events:
        if ev.get('routes') is None:
            binding = 'drift(_checkQuantifiedFormula)'
            break
        for k, v in ev['routes'].items():
            routes[k] += v
    ctx.note('dispatch_routes', routes)
    ctx.note('mechanism_binding', binding)
    if binding == 'ok':
        ctx.note('uncovered_routes', [k for k, v in routes.items() if v == 0])
    # large lassos (LargeShapes.tla): structures with more than a thousand states, answers by closed forms
    bigfam.run_big(ctx, bigfam.cases(rnd, ['mc'], 4 if q else 40, logics=('CTLS',)))


def replay(ctx, path):
    if bigfam.maybe_replay(ctx, path):
        return
    mcfam.replay_cases(ctx, path)
