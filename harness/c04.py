"""C04 - the three checkers agree with each other and obey the semantic laws (reference-free)."""
import json

import gen
import lawfam
from gen import P, Q, TR, FA, L0, M0

DUALOP = {'X': 'X', 'F': 'G', 'G': 'F', 'U': 'R', 'R': 'U'}


def neg(f):
    return ('not', f)


def dual(f):
    """A g  <->  not E dual(g)  with negated operands (a CTL formula again when f is)"""
    q, g = f
    oq = 'E' if q == 'A' else 'A'
    return neg((oq, (DUALOP[g[0]],) + tuple(neg(x) for x in g[1:])))


def unfold(f):
    q, g = f
    nxt = (q, ('X', f))
    o = g[0]
    if o == 'U':
        return ('or', g[2], ('and', g[1], nxt))
    if o == 'R':
        return ('and', g[2], ('or', g[1], nxt))
    if o == 'G':
        return ('and', g[1], nxt)
    if o == 'F':
        return ('or', g[1], nxt)
    return None


def is_pl(f):
    return f[0] in ('ap', 'true', 'false') or (f[0] in ('not', 'or', 'and', 'imp') and all(is_pl(x) for x in f[1:]))


def run(ctx):
    q = ctx.quick()
    rnd = ctx.rng
    ctx.rule = ('cases = groups of related modelcheck calls on one structure, judged by set relations only: the same shared-fragment '
                'formula through CTL/LTL/CTLS as object and as text (equal), f vs not f (complement), f,g vs f and/or/implies g, '
                'A g vs not E not g, fixpoint expansions of EU/AU/EG/AG/EF/AF/ER/AR; small scope x operands of depth<=1, seeded '
                'random beyond; distinct_nontrivial = distinct groups whose first member is neither empty nor all states')
    ctx.model('MC_Sem.tla', 'MC_Sem_ctl1.cfg', timeout=1500)     # the laws are theorems of the semantics
    scope = gen.small_scope(2) + gen.catalogue(40) + ([] if q else rnd.sample([K for K in gen.small_scope(3) if K['n'] == 3], 400))
    pl1 = gen.dedup(L0 + gen.bool1(M0))
    ops = gen.dedup(M0 + [TR, FA] + [('not', P), ('or', P, Q), ('and', P, ('not', Q))])
    nary_ops = [('or', FA, Q, P), ('and', TR, P, Q), ('or', P, ('not', P), Q), ('and', Q, ('not', P), TR, Q), ('or', FA, FA, ('not', Q), P)]
    groups = []

    def add(law, K, members, family, checklaw=False):
        groups.append({'law': law, 'K': K, 'members': members, 'family': family, 'checklaw': checklaw})

    def rpres():
        return {'naming': rnd.choice(['int', 'str', 'tuple']), 'shuf': rnd.randrange(1 << 30)}

    shared = gen.ctl_q(ops[:5]) + gen.ctl_q(nary_ops, ops[:3]) + gen.ctl_q(ops[:2], nary_ops)   # propositional operands
    shared_A = [f for f in shared if f[0] == 'A']
    for K in (scope if not q else rnd.sample(scope, min(len(scope), 90))):
        # agreement on the shared fragment, objects and text, all three checkers
        for f in (shared_A if not q else rnd.sample(shared_A, 12)):
            add('equal', K, [dict(logic=lg, f=f, mode=md, **rpres()) for lg in ('CTL', 'LTL', 'CTLS') for md in ('obj', 'text')],
                'agree A-rooted CTL/LTL/CTLS')
        for f in rnd.sample(shared, 8):
            add('equal', K, [dict(logic=lg, f=f, mode=md, **rpres()) for lg in ('CTL', 'CTLS') for md in ('obj', 'text', 'ctls-obj')
                             if not (lg == 'CTLS' and md == 'ctls-obj')], 'agree CTL/CTLS')
        for f in rnd.sample(pl1, 6):
            add('equal', K, [dict(logic='CTL', f=f), dict(logic='CTLS', f=f, mode='text'), dict(logic='LTL', f=('A', f)),
                             dict(logic='CTLS', f=('A', f)), dict(logic='CTLS', f=('E', f))], 'agree PL', checklaw=True)
        # Boolean laws in CTL and CTLS
        pool = shared + pl1
        for _ in range(10 if q else 40):
            lg = rnd.choice(['CTL', 'CTLS'])
            f, g = rnd.choice(pool), rnd.choice(pool)
            if f[0] in 'AE' and rnd.random() < 0.5:
                g = rnd.choice(f[1][1:])        # an operand of f evaluated again after f (memo aliasing)
                if rnd.random() < 0.5:
                    g = neg(g)
            add('compl', K, [dict(logic=lg, f=f), dict(logic=lg, f=neg(f))], 'complement')
            op = rnd.choice(['and', 'or', 'imp'])
            add(op, K, [dict(logic=lg, f=f), dict(logic=lg, f=g), dict(logic=lg, f=(op, f, g), mode=rnd.choice(['obj', 'text']))], 'connectives')
        # duality and fixpoint expansion
        for f in rnd.sample(shared, 10 if q else len(shared)):
            lg = rnd.choice(['CTL', 'CTLS'])
            add('equal', K, [dict(logic=lg, f=f), dict(logic=lg, f=dual(f))], 'duality', checklaw=True)
            u = unfold(f)
            if u:
                add('equal', K, [dict(logic=lg, f=f), dict(logic=lg, f=u)], 'expansion', checklaw=True)
        # CTL* duality on non-CTL path formulas: A g = not E not g
        for _ in range(4 if q else 12):
            g = gen.rand_path(rnd, 2, leaves=M0)
            if gen.temporal_count(g) <= 3:
                add('equal', K, [dict(logic='CTLS', f=('A', g)), dict(logic='CTLS', f=neg(('E', neg(g)))),
                                 dict(logic='LTL', f=('A', g))], 'CTL* duality', checklaw=True)
    # path-level expansion laws on recurrence / persistence formulas: G f = f and X G f, F f = f or X F f (LTL and CTL*)
    for _ in range(250 if q else 5000):
        K = gen.rand_kripke(rnd, rnd.choice([3, 4, 5]), density=rnd.choice([0.25, 0.4]))
        a, b = rnd.choice(M0), rnd.choice(M0)
        h = rnd.choice([('F', ('R', a, b)), ('F', ('U', a, b)), ('F', a), ('G', a), ('R', a, b), ('U', a, b), ('F', ('G', a)), ('X', ('U', a, b))])
        o = rnd.choice(['G', 'F'])
        lhs = (o, h)
        rhs = ('and', h, ('X', (o, h))) if o == 'G' else ('or', h, ('X', (o, h)))
        if gen.temporal_count(rhs) <= 6:
            qf = rnd.choice('AE')
            add('equal', K, [dict(logic='CTLS', f=(qf, lhs)), dict(logic='CTLS', f=(qf, rhs), mode=rnd.choice(['obj', 'text']))] +
                ([dict(logic='LTL', f=('A', lhs)), dict(logic='LTL', f=('A', rhs))] if qf == 'A' else []), 'path expansion', checklaw=True)
    # seeded random beyond the scope
    for _ in range(400 if q else 12000):
        K = gen.rand_kripke(rnd, rnd.choice([3, 4, 5]))
        f, g = gen.rand_ctl(rnd, 2), gen.rand_ctl(rnd, 2)
        lg = rnd.choice(['CTL', 'CTLS'])
        add('compl', K, [dict(logic=lg, f=f, **rpres()), dict(logic=lg, f=neg(f), **rpres())], 'random complement')
        op = rnd.choice(['and', 'or', 'imp'])
        add(op, K, [dict(logic=lg, f=f), dict(logic=lg, f=g), dict(logic=lg, f=(op, f, g))], 'random connectives')
        add('equal', K, [dict(logic='CTL', f=f, **rpres()), dict(logic='CTLS', f=f, mode='text', **rpres()), dict(logic='CTL', f=f, mode='ctls-obj')],
            'random agree')
    fams = {}
    for g in groups:
        fams[g['family']] = fams.get(g['family'], 0) + 1
    ctx.note('groups_by_family', fams)
    events = lawfam.run_groups(ctx, groups)
    for g, e in zip(groups, events):
        o = e['members'][0]['out']
        if 'ret' in o and 0 < len(o['ret']) < e['n']:
            ctx.nontrivial.add(json.dumps([g['law'], g['K'], [m['f'] for m in g['members']]]))
    seen = set()
    for g, e in zip(groups, events):
        if g['family'] not in seen:
            seen.add(g['family'])
            ctx.sample({'family': g['family'], 'group': e}, limit=12)


def replay(ctx, path):
    lawfam.replay(ctx, path)
