"""Groups of related modelcheck calls judged relationally by TraceLaws.tla (C04, C06)."""
import json
import random

import mcfam
import pymc
from pymc import T
from common import pmap, MachineryError


def law_event(g):
    """g: {tid, law, K, members: [{logic, f, mode, naming, shuf, K (optional override)}], checklaw}"""
    K = g['K']
    members = []
    for mi, m in enumerate(g['members']):
        case = {'tid': g['tid'] * 5 + mi, 'logic': m['logic'], 'K': m.get('K', K), 'f': T(m['f']), 'mode': m.get('mode', 'obj'),
                'naming': m.get('naming', 'int'), 'shuf': m.get('shuf')}
        ev = mcfam.mc_event(case)
        members.append({'logic': m['logic'], 'f': m['f'], 'mode': m.get('mode', 'obj'),
                        'pres': [m.get('naming', 'int'), -1 if m.get('shuf') is None else m.get('shuf')], 'out': ev['out']})
    e = {'tid': g['tid'], 'law': g['law'], 'n': K['n'], 'R': K['R'], 'L': K['L'], 'members': members}
    if g.get('checklaw'):
        e['checklaw'] = 1
    return e


def run_groups(ctx, groups, family_key='family'):
    for i, g in enumerate(groups):
        g['tid'] = i
    events = pmap(law_event, groups)
    ctx.evaluations += sum(len(e['members']) for e in events)
    nskip = sum(1 for e in events if any('skipped' in m['out'] for m in e['members']))
    if nskip:
        ctx.count('skipped_timeouts', nskip)
    verdicts = ctx.validate('TraceLaws.tla', 'Trace.cfg', events)
    for tid, v in sorted(verdicts.items()):
        g, e = groups[tid], events[tid]
        if v['v'].startswith('ORACLE'):
            raise MachineryError('harness grouped non-equivalent formulas: ' + json.dumps(e)[:600])
        ctx.violation('%s law %s: %s; K=%s members=%s' % (
            g.get('family', ''), g['law'], v['v'], json.dumps({'n': e['n'], 'R': e['R'], 'L': e['L']}),
            json.dumps([[m['logic'], m['mode'], m['f'], m['out']] for m in e['members']])[:900]),
            {'group': g, 'event': e, 'verdict': v})
    return events


def replay(ctx, path):
    obj = json.load(open(path))
    events = run_groups(ctx, [obj['case']['group']])
    ctx.log('replayed: ' + json.dumps(events[0])[:800])
