"""C09 - printing then parsing a formula gives back the same formula."""
import json

import synfam
from synfam import formulas_of, rand_formula

ATOMS = ['p', 'q_1', 'Zx9', '_a', 'trueish', 'notX', 'Aa', 'U2', 'or_', 'True', 'FALSE', 'tRue', 'Not', 'OR', 'And', 'a', 'e', 'x', 'f', 'g', 'u', 'r', 'AG', 'EX', 'Until']


def rename(f, m):
    if f[0] == 'ap':
        return ('ap', m.get(f[1], f[1]))
    return (f[0],) + tuple(rename(x, m) if isinstance(x, tuple) else x for x in f[1:])


def run(ctx):
    q = ctx.quick()
    rnd = ctx.rng
    ctx.rule = ('cases = formulas of PL, LTL, CTL* (printed natively) and CTL (printed in CTL* notation via cast_to(CTLS)) over '
                'identifier-style non-reserved atoms incl. names that start like keywords, n-ary and/or of arity 2-4: all formulas of '
                'the depth<=2 enumeration, random to depth 5; event = (tree, tokens of str(f), tree and logic of Parser()(str(f))); '
                'printed strings are grouped and any two equal strings with different trees are reported; '
                'distinct_nontrivial = distinct non-leaf trees round-tripped')
    for m in ('PL', 'LTL', 'CTL', 'CTLS'):
        ctx.model('MC_Syntax.tla', 'Syntax_%s.cfg' % m, timeout=1500)
    cases = []
    for lang in ('PL', 'LTL', 'CTL', 'CTLS'):
        fam = formulas_of(lang)
        for f in fam:
            cases.append({'op': 'roundtrip', 'lang': lang, 'f': f, 'style': rnd.choice(['obj', 'obj', 'raw', 'strsub', 'ops'])})
        for f in rnd.sample(fam, min(len(fam), 150 if q else len(fam))):
            m = {'p': rnd.choice(ATOMS), 'q_1': rnd.choice(ATOMS)}
            cases.append({'op': 'roundtrip', 'lang': lang, 'f': rename(f, m), 'style': 'obj'})
        for _ in range(800 if q else 20000):
            f = rand_formula(rnd, lang, rnd.choice([3, 4, 5]), rnd.sample(ATOMS, 3))
            cases.append({'op': 'roundtrip', 'lang': lang, 'f': f, 'style': 'obj'})
    # wide formulas: hundreds of operands under one and/or (small height, thousands of tokens and parentheses)
    for lang in ('PL', 'LTL', 'CTL', 'CTLS'):
        for _ in range(3 if q else 20):
            unit = {'PL': lambda a, b: ('and', ('not', ('ap', a)), ('or', ('ap', b), ('true',))),
                    'LTL': lambda a, b: ('and', ('X', ('ap', a)), ('U', ('ap', b), ('not', ('ap', a)))),
                    'CTL': lambda a, b: ('and', ('E', ('X', ('ap', a))), ('A', ('U', ('ap', b), ('not', ('ap', a))))),
                    'CTLS': lambda a, b: ('and', ('X', ('ap', a)), ('E', ('U', ('ap', b), ('not', ('ap', a)))))}[lang]
            k = rnd.randint(300, 700)
            names = rnd.sample(ATOMS, 3)
            f = (rnd.choice(['or', 'and']),) + tuple(unit(rnd.choice(names), rnd.choice(names)) for _ in range(k))
            cases.append({'op': 'roundtrip', 'lang': lang, 'f': f, 'style': 'obj'})
    ctx.exhaustive = True
    keep = synfam.run_events(ctx, cases)
    # injectivity of printing on the code: equal strings must come from equal trees
    by_text = {}
    coll = []
    for c, ev in keep:
        if 'text' in ev:
            key = (ev['lang'], ev['text'])
            t = json.dumps(ev['f'])
            if key in by_text and by_text[key] != t:
                coll.append({'op': 'collide', 'lang': ev['lang'], 'f': json.loads(by_text[key]), 'g': ev['f'], 'text': ev['text']})
            by_text.setdefault(key, t)
        if ev['f'][0] not in ('ap', 'true', 'false'):
            ctx.nontrivial.add(json.dumps([ev['lang'], ev['f']]))
    ctx.note('distinct_printed_strings', len(by_text))
    ctx.note('print_collisions', len(coll))
    if coll:
        synfam.run_events(ctx, coll[:200])
    for c, ev in keep[10:12] + keep[-2:]:
        ctx.sample({k: ev[k] for k in ev if k != 'toks'})
    ctx.assumptions.append('the harness tokeniser (30 lines, lexical classes of Syntax.tla) is trusted; a tokeniser error shows up as binding drift')


def replay(ctx, path):
    synfam.replay(ctx, path)
