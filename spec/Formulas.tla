--------------------------- MODULE Formulas ---------------------------
(* Syntax-level operators on formula trees: the documented membership predicates of the *)
(* four logics (doc/source/logics.rst), LNot, and rule-by-rule transcriptions of the    *)
(* library's rewriting functions (get_equivalent_restricted_formula for CTL* / LTL and  *)
(* for CTL, get_equivalent_non_fair_formula).                                           *)
EXTENDS Naturals, Sequences, FiniteSets, TLC

FArgs(f) == {f[i] : i \in 2..Len(f)}
Tr == <<"true">>
Fa == <<"false">>
Nt(f) == <<"not", f>>
IsLeaf(f) == f[1] \in {"ap", "true", "false"}
Unary == {"not", "X", "F", "G", "A", "E"}
Binary == {"imp", "U", "R"}
Nary == {"or", "and"}
\* TLC: a function with domain 1..n is equal to a tuple but far slower to compare; always
\* hand out genuine tuples
AsTuple(s) == SubSeq(s, 1, Len(s))
MapArgs(Op(_), f) == AsTuple([i \in 1..Len(f) |-> IF i = 1 THEN f[1] ELSE Op(f[i])])

RECURSIVE Sub(_)
Sub(f) == {f} \cup (IF IsLeaf(f) THEN {} ELSE UNION {Sub(x) : x \in FArgs(f)})
RECURSIVE Atoms(_)
Atoms(f) == IF f[1] = "ap" THEN {f[2]} ELSE IF IsLeaf(f) THEN {} ELSE UNION {Atoms(x) : x \in FArgs(f)}
Max(a, b) == IF a > b THEN a ELSE b
SetMax(S) == CHOOSE m \in S : \A x \in S : x <= m
RECURSIVE Height(_)
Height(f) == IF IsLeaf(f) THEN 0 ELSE 1 + SetMax({Height(x) : x \in FArgs(f)})
\* well-formed operator tree with the documented arities
RECURSIVE WellFormed(_)
WellFormed(f) ==
  /\ Len(f) >= 1
  /\ CASE f[1] = "ap" -> Len(f) = 2
       [] f[1] \in {"true", "false"} -> Len(f) = 1
       [] f[1] \in Unary -> Len(f) = 2 /\ WellFormed(f[2])
       [] f[1] \in Binary -> Len(f) = 3 /\ WellFormed(f[2]) /\ WellFormed(f[3])
       [] f[1] \in Nary -> Len(f) >= 3 /\ \A x \in FArgs(f) : WellFormed(x)
       [] OTHER -> FALSE

\* ---------------------------------------------------------------- documented languages
BoolOps == {"not", "or", "and", "imp"}
TempOps == {"X", "F", "G", "U", "R"}
RECURSIVE IsPL(_)
IsPL(f) == IsLeaf(f) \/ (f[1] \in BoolOps /\ \A x \in FArgs(f) : IsPL(x))
RECURSIVE CTLSState(_), CTLSPath(_)
CTLSState(f) == \/ IsLeaf(f)
                \/ f[1] \in BoolOps /\ \A x \in FArgs(f) : CTLSState(x)
                \/ f[1] \in {"A", "E"} /\ CTLSPath(f[2])
CTLSPath(f) == \/ CTLSState(f)
               \/ f[1] \in BoolOps \cup TempOps /\ \A x \in FArgs(f) : CTLSPath(x)
RECURSIVE CTLState(_)
CTLPath(g) == g[1] \in TempOps /\ \A x \in FArgs(g) : CTLState(x)
CTLState(f) == \/ IsLeaf(f)
               \/ f[1] \in BoolOps /\ \A x \in FArgs(f) : CTLState(x)
               \/ f[1] \in {"A", "E"} /\ CTLPath(f[2])
RECURSIVE LTLPath(_)
LTLPath(f) == IsLeaf(f) \/ (f[1] \in BoolOps \cup TempOps /\ \A x \in FArgs(f) : LTLPath(x))
LTLState(f) == f[1] = "A" /\ LTLPath(f[2])
\* kind of a tree in a language: "state", "path" or "none" (PL has only "state")
KindIn(lang, f) ==
  CASE lang = "PL"   -> IF IsPL(f) THEN "state" ELSE "none"
    [] lang = "CTL"  -> IF CTLState(f) THEN "state" ELSE IF CTLPath(f) THEN "path" ELSE "none"
    [] lang = "LTL"  -> IF LTLState(f) THEN "state" ELSE IF LTLPath(f) THEN "path" ELSE "none"
    [] lang = "CTLS" -> IF CTLSState(f) THEN "state" ELSE IF CTLSPath(f) THEN "path" ELSE "none"

\* ---------------------------------------------------------------- LNot and rewriting
RECURSIVE LNot(_)
LNot(f) == IF f[1] = "not" THEN (IF f[2][1] = "not" THEN LNot(f[2][2]) ELSE f[2]) ELSE Nt(f)

\* CTLS/language.py get_equivalent_restricted_formula (also used by LTL)
RECURSIVE RestrictCTLS(_)
RestrictCTLS(f) == LET t == f[1] IN
  CASE IsLeaf(f) -> f
    [] t = "not" -> LNot(RestrictCTLS(f[2]))
    [] t = "A"   -> Nt(<<"E", LNot(RestrictCTLS(f[2]))>>)
    [] t = "E"   -> <<"E", RestrictCTLS(f[2])>>
    [] t = "X"   -> <<"X", RestrictCTLS(f[2])>>
    [] t = "F"   -> <<"U", Tr, RestrictCTLS(f[2])>>
    [] t = "G"   -> Nt(<<"U", Tr, LNot(RestrictCTLS(f[2]))>>)
    [] t = "or"  -> MapArgs(RestrictCTLS, f)
    [] t = "and" -> Nt(AsTuple([i \in 1..Len(f) |-> IF i = 1 THEN "or" ELSE LNot(RestrictCTLS(f[i]))]))
    [] t = "imp" -> <<"or", LNot(RestrictCTLS(f[2])), RestrictCTLS(f[3])>>
    [] t = "U"   -> <<"U", RestrictCTLS(f[2]), RestrictCTLS(f[3])>>
    [] t = "R"   -> Nt(<<"U", LNot(RestrictCTLS(f[2])), LNot(RestrictCTLS(f[3]))>>)

EXf(a) == <<"E", <<"X", a>>>>
EGf(a) == <<"E", <<"G", a>>>>
EUf(a, b) == <<"E", <<"U", a, b>>>>
\* CTL/language.py get_equivalent_restricted_formula (A and E overridden, the rest inherited)
RECURSIVE RestrictCTL(_)
RestrictCTL(f) == LET t == f[1] IN
  CASE IsLeaf(f) -> f
    [] t = "not" -> LNot(RestrictCTL(f[2]))
    [] t = "or"  -> MapArgs(RestrictCTL, f)
    [] t = "and" -> Nt(AsTuple([i \in 1..Len(f) |-> IF i = 1 THEN "or" ELSE LNot(RestrictCTL(f[i]))]))
    [] t = "imp" -> <<"or", LNot(RestrictCTL(f[2])), RestrictCTL(f[3])>>
    [] t = "E" -> LET p == f[2]  o == p[1]  r0 == RestrictCTL(p[2]) IN
         (CASE o = "X" -> EXf(r0)
            [] o = "F" -> EUf(Tr, r0)
            [] o = "G" -> EGf(r0)
            [] o = "U" -> EUf(r0, RestrictCTL(p[3]))
            [] o = "R" -> LET r1 == RestrictCTL(p[3]) IN
                          <<"or", EUf(r1, Nt(<<"or", LNot(r0), LNot(r1)>>)), EGf(r1)>>)
    [] t = "A" -> LET p == f[2]  o == p[1]  r0 == RestrictCTL(p[2])  n0 == LNot(r0) IN
         (CASE o = "X" -> Nt(EXf(n0))
            [] o = "F" -> Nt(EGf(n0))
            [] o = "G" -> Nt(EUf(Tr, n0))
            [] o = "U" -> LET r1 == RestrictCTL(p[3])  n1 == LNot(r1) IN
                          Nt(<<"or", EUf(n1, Nt(<<"or", r0, r1>>)), EGf(n1)>>)
            [] o = "R" -> LET r1 == RestrictCTL(p[3]) IN Nt(EUf(n0, LNot(r1))))

\* documented restricted alphabets (property C05): not, or, X, U, E, true, atoms (false is an
\* atomic proposition in this library); for CTL additionally E G, and E only paired with X/U/G
RECURSIVE InRestrictedCTLS(_)
InRestrictedCTLS(f) == \/ IsLeaf(f)
                       \/ f[1] \in {"not", "or", "X", "U", "E"} /\ \A x \in FArgs(f) : InRestrictedCTLS(x)
RECURSIVE InRestrictedCTL(_)
InRestrictedCTL(f) == \/ IsLeaf(f)
                      \/ f[1] \in {"not", "or"} /\ \A x \in FArgs(f) : InRestrictedCTL(x)
                      \/ f[1] = "E" /\ f[2][1] \in {"X", "U", "G"} /\ \A x \in FArgs(f[2]) : InRestrictedCTL(x)
StartsWithTwoNots(f) == f[1] = "not" /\ f[2][1] = "not"

\* ---------------------------------------------------------------- fairness reductions as coded
FairAtom(name) == <<"ap", name>>
And2(a, b) == <<"and", a, b>>
Or2(a, b) == <<"or", a, b>>
\* CTLS/language.py Formula.get_equivalent_non_fair_formula (generic, quantifier-free part)
RECURSIVE NonFairCTLS(_, _)
NonFairCTLS(g, FA) == LET t == g[1] IN
  CASE IsLeaf(g) -> And2(g, FA)
    [] t = "A" -> <<"A", LNot(And2(LNot(NonFairCTLS(g[2], FA)), FA))>>
    [] t = "E" -> <<"E", And2(FA, NonFairCTLS(g[2], FA))>>
    [] OTHER -> AsTuple([i \in 1..Len(g) |-> IF i = 1 THEN t ELSE NonFairCTLS(g[i], FA)])
\* CTL/language.py A/E.get_equivalent_non_fair_formula (with fix F5 applied to the E-R branch)
RECURSIVE NonFairCTL(_, _)
NonFairCTL(f, FA) == LET t == f[1] IN
  CASE IsLeaf(f) -> And2(f, FA)
    [] t \in BoolOps -> AsTuple([i \in 1..Len(f) |-> IF i = 1 THEN t ELSE NonFairCTL(f[i], FA)])
    [] t = "E" -> LET p == f[2]  o == p[1]  sf0 == NonFairCTL(p[2], FA) IN
         (CASE o = "X" -> EXf(And2(sf0, FA))
            [] o = "F" -> EUf(Tr, And2(sf0, FA))
            [] o = "G" -> EGf(And2(sf0, FA))
            [] o = "U" -> EUf(sf0, And2(NonFairCTL(p[3], FA), FA))
            [] o = "R" -> LET sf1 == NonFairCTL(p[3], FA) IN
                          Or2(EUf(sf1, And2(Nt(Or2(LNot(sf0), LNot(sf1))), FA)), EGf(And2(sf1, FA))))
    [] t = "A" -> LET p == f[2]  o == p[1]  sf0 == NonFairCTL(p[2], FA)  n0 == LNot(sf0) IN
         (CASE o = "X" -> Nt(EXf(And2(n0, FA)))
            [] o = "F" -> Nt(EGf(And2(n0, FA)))
            [] o = "G" -> Nt(EUf(Tr, And2(n0, FA)))
            [] o = "U" -> LET sf1 == NonFairCTL(p[3], FA)  n1 == LNot(sf1) IN
                          Nt(Or2(EUf(n1, And2(Nt(Or2(sf0, sf1)), FA)), EGf(And2(n1, FA))))
            [] o = "R" -> LET sf1 == NonFairCTL(p[3], FA)  n1 == LNot(sf1) IN Nt(EUf(n0, And2(n1, FA))))
=======================================================================
