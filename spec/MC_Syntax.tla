----------------------------- MODULE MC_Syntax -----------------------------
(* R2 for C09/C10: the printer and the grammars checked against each other.  For every      *)
(* formula of each logic up to the depth bound (n-ary and/or of arity 2-3, non-reserved      *)
(* identifier atoms):  the printed token sequence has exactly one keyword-respecting parse, *)
(* and it is the formula itself (hence printing is injective); the other logics' grammars   *)
(* accept it only when the tree belongs to them (documented membership predicates).         *)
EXTENDS Syntax, SequencesExt
CONSTANT Mode
VARIABLE c
P == <<"ap", "p">>  Q == <<"ap", "q_1">>
L0 == {P, Q, Tr, Fa}
M0 == {P, Q}
UnB(S) == {<<"not", f>> : f \in S}
BiB(S) == {<<o, f, h>> : o \in {"or", "and", "imp"}, f \in S, h \in S} \cup {<<o, f, h, k>> : o \in {"or", "and"}, f \in S, h \in {P}, k \in S}
UnT(S) == {<<o, f>> : o \in {"X", "F", "G"}, f \in S}
BiT(S) == {<<o, f, h>> : o \in {"U", "R"}, f \in S, h \in S}
PL1 == L0 \cup UnB(L0) \cup BiB(L0)
PL2 == PL1 \cup UnB(PL1) \cup BiB({P, <<"not", Q>>, <<"or", P, Q>>, <<"and", Q, P, Q>>, <<"imp", P, Q>>})
Path1 == L0 \cup UnB(L0) \cup BiB(L0) \cup UnT(L0) \cup BiT(L0)
PathM == {P, <<"not", Q>>, <<"X", P>>, <<"U", P, Q>>, <<"or", P, Q>>, <<"G", Q>>, <<"and", P, Q, P>>}
Path2 == Path1 \cup UnB(PathM) \cup UnT(PathM) \cup BiT(PathM) \cup BiB(PathM)
LTLfam == Path2 \cup {<<"A", g>> : g \in Path1 \cup UnT(PathM)}
QM == {<<q, g>> : q \in {"A", "E"}, g \in {<<"X", P>>, <<"U", P, Q>>, <<"or", <<"F", P>>, Q>>, P}}
CTLSfam == Path2 \cup {<<q, g>> : q \in {"A", "E"}, g \in Path1} \cup UnT(QM) \cup BiT(QM) \cup UnB(QM) \cup BiB(QM) \cup {<<q, g>> : q \in {"A", "E"}, g \in UnT(QM) \cup QM}
CTLq(S) == {<<q, <<o, f>>>> : q \in {"A", "E"}, o \in {"X", "F", "G"}, f \in S} \cup {<<q, <<o, f, h>>>> : q \in {"A", "E"}, o \in {"U", "R"}, f \in S, h \in S}
CTL1 == L0 \cup CTLq(L0) \cup UnB(L0) \cup BiB(L0)
CTLM == {P, <<"not", Q>>, <<"E", <<"X", P>>>>, <<"A", <<"U", P, Q>>>>, <<"or", P, Q>>, <<"and", P, Q, P>>}
CTLfam == CTL1 \cup CTLq(CTLM) \cup UnB(CTLM) \cup BiB(CTLM)
Fam == CASE Mode = "PL" -> PL2 [] Mode = "LTL" -> LTLfam [] Mode = "CTLS" -> CTLSfam [] Mode = "CTL" -> CTLfam
All == SetToSeq(Fam)
NB == 64
Init == c = <<>>
Next == \/ c = <<>> /\ c' \in {<<"bucket", i>> : i \in 0..(NB-1)}
        \/ c # <<>> /\ c[1] = "bucket" /\ c' \in {<<"f", All[k]>> : k \in {j \in 1..Len(All) : j % NB = c[2]}}
Spec == Init /\ [][Next]_c
Full == c # <<>> /\ c[1] = "f"
f == c[2]
toks == Pr("ctls", f)
Langs == {"PL", "LTL", "CTL", "CTLS"}
\* every formula of the family is a formula of its logic (guards the family definitions)
InLogic == Full => KindIn(Mode, f) # "none"
\* print/parse round trip with a unique keyword-respecting parse
RoundTrip == Full => Derives(Mode, toks) = {f}
\* cross-feeding: whatever another logic's grammar derives from the printed text is a formula of that
\* logic (grammar within the documented membership predicate), and if the tree itself belongs to that
\* logic then it is the unique parse there too (e.g. CTL formulas printed in CTL* notation).  Note that
\* a grammar may read the same text as a DIFFERENT tree: "(A(p) R A(X(p)))" is R(A p, A X p) in CTL*
\* and A(p R A X p) in CTL.
CrossFeed == Full => \A lg \in Langs :
                /\ \A t \in Derives(lg, toks) : KindIn(lg, t) # "none"
                /\ KindIn(lg, f) # "none" => Derives(lg, toks) = {f}
=============================================================================
