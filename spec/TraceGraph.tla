-------------------------- MODULE TraceGraph --------------------------
(* Code -> spec: total-verdict validation of recorded DiGraph call histories against    *)
(* module Digraph.  One ndjson line per public call, after it returned or raised:        *)
(*  {tid, trace, i, op, g, <args>, new, out: {ret: ..} | {exc: "Class"}, pool: {"1": {V,E}, ..}} *)
(* pool is the full projection of every pooled object after the call.  The validator     *)
(* carries the spec's pool along each trace (i = 0 starts a new trace); after a failure  *)
(* the rest of that trace is skipped (the spec state is no longer meaningful).           *)
EXTENDS Digraph, IOUtils, TLCExt
TraceLog == ndJsonDeserialize(IOEnv.TRACE_FILE)
VARIABLES l, fails, sp, broken
ToSet(seq) == {seq[i] : i \in 1..Len(seq)}
Pairs(seq) == {<<p[1], p[2]>> : p \in ToSet(seq)}
GraphOf(j) == [V |-> ToSet(j.V), E |-> Pairs(j.E)]
Has(e, k) == k \in DOMAIN e
\* the recorded projection as a spec pool
ProjPool(e) == [id \in {x \in 1..20 : ToString(x) \in DOMAIN e.pool} |-> GraphOf(e.pool[ToString(id)])]
CallOf(e) == IF Has(e, "X") THEN [e EXCEPT !.X = ToSet(e.X)] ELSE e
\* does the recorded return value match the specified one?
RetMatches(e, o) ==
  CASE e.op \in {"add_node", "add_edge"} -> TRUE
    [] e.op \in {"reach", "next", "nodes", "sources"} -> ToSet(e.out.ret) = o.ret /\ Len(e.out.ret) = Cardinality(o.ret)
    [] e.op = "edges" -> Pairs(e.out.ret) = o.ret /\ Len(e.out.ret) = Cardinality(o.ret)
    [] e.op = "sccs" -> LET comps == e.out.ret IN
         /\ \A k \in 1..Len(comps) : Len(comps[k]) = Cardinality(ToSet(comps[k]))          \* no node twice in a component
         /\ \A j, k \in 1..Len(comps) : j # k => ToSet(comps[j]) \cap ToSet(comps[k]) = {}  \* each node in one component
         /\ {ToSet(comps[k]) : k \in 1..Len(comps)} = o.ret                                 \* exactly the mutual-reachability classes
    [] e.op = "sccs_some" -> LET comps == e.out.ret IN       \* the first k components of an abandoned generator
         /\ Len(comps) = (IF e.k < Cardinality(o.ret) THEN e.k ELSE Cardinality(o.ret))
         /\ \A k \in 1..Len(comps) : Len(comps[k]) = Cardinality(ToSet(comps[k])) /\ ToSet(comps[k]) \in o.ret
         /\ \A j, k \in 1..Len(comps) : j # k => ToSet(comps[j]) \cap ToSet(comps[k]) = {}
    [] e.op \in {"rev", "sub", "clone"} -> GraphOf(e.out.ret) = o.ret
Judge(e, P) ==
  IF e.op = "new" THEN
       LET P2 == Put(P, e.new, MkGraph(ToSet(e.V), Pairs(e.E))) IN
       IF Has(e.out, "exc") THEN [v |-> "violation:outcome:new raised " \o e.out.exc, pool |-> P]
       ELSE IF ProjPool(e) # P2 THEN [v |-> "violation:state:new", pool |-> P2] ELSE [v |-> "ok", pool |-> P2]
  ELSE IF e.op = "drop" THEN
       LET P2 == [x \in DOMAIN P \ {e.g} |-> P[x]] IN
       IF ProjPool(e) # P2 THEN [v |-> "violation:state:drop", pool |-> P2] ELSE [v |-> "ok", pool |-> P2]
  ELSE LET c == CallOf(e)
           G == P[e.g]
           o == Outcome(G, c)
           P1 == Put(P, e.g, Effect(G, c))
           P2 == IF MakesObject(e.op) /\ Has(o, "ret") THEN Put(P1, e.new, o.ret) ELSE P1
       IN IF Has(o, "exc") /\ ~Has(e.out, "exc") THEN [v |-> "violation:outcome:" \o e.op \o " should raise " \o o.exc, pool |-> P2]
          ELSE IF Has(o, "exc") /\ e.out.exc # o.exc THEN [v |-> "violation:outcome:" \o e.op \o " raised " \o e.out.exc, pool |-> P2]
          ELSE IF Has(o, "ret") /\ Has(e.out, "exc") THEN [v |-> "violation:outcome:" \o e.op \o " raised " \o e.out.exc, pool |-> P2]
          ELSE IF Has(o, "ret") /\ ~RetMatches(e, o) THEN [v |-> "violation:result:" \o e.op, pool |-> P2]
          ELSE IF ProjPool(e) # P2 THEN [v |-> "violation:state:" \o e.op, pool |-> P2]
          ELSE [v |-> "ok", pool |-> P2]
TInit == l = 1 /\ fails = <<>> /\ sp = <<>> /\ broken = FALSE
TNext == /\ l <= Len(TraceLog)
         /\ LET e == TraceLog[l]
                fresh == e.i = 0
                P == IF fresh THEN <<>> ELSE sp
                skip == broken /\ ~fresh
                j == IF skip THEN [v |-> "ok", pool |-> sp] ELSE Judge(e, P)
            IN /\ fails' = IF j.v = "ok" THEN fails ELSE Append(fails, [tid |-> e.tid, v |-> j.v])
               /\ sp' = j.pool
               /\ broken' = IF skip THEN TRUE ELSE j.v # "ok"
         /\ l' = l + 1
         /\ UNCHANGED <<pool, hist>>
TSpec == TInit /\ pool = <<>> /\ hist = <<>> /\ [][TNext]_<<l, fails, sp, broken, pool, hist>>
Done == (l = Len(TraceLog) + 1) => JsonSerialize(IOEnv.OUT_FILE, [n |-> Len(TraceLog), fails |-> fails])
TPost == TLCGet("stats").diameter = Len(TraceLog) + 1
=======================================================================
