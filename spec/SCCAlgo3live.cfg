CONSTANT N = 3
SPECIFICATION FairSpec
INVARIANT Exact
PROPERTY Terminates
CHECK_DEADLOCK FALSE
