CONSTANTS
  MaxN = 2
  B = 4
  Mode = "fair"
SPECIFICATION Spec
INVARIANT FairAgree
CHECK_DEADLOCK FALSE
