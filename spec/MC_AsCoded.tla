--------------------------- MODULE MC_AsCoded ---------------------------
(* Design level for C15: with the documented fair-state set (KF-1 switched off), which of  *)
(* the CTL fairness reductions of get_equivalent_non_fair_formula are exact?               *)
(*   GoodReductions  EX, EF, EU, AX, AG, AR agree with the fair semantics for every K, F   *)
(*   BadReductions   EG, AF, AU, ER do NOT (KF-2): checked with the expectation that TLC   *)
(*                   finds a counterexample, which is the finding's witness                *)
(*   KF1Matters      the as-coded fair-state set differs from the documented one (KF-1)    *)
EXTENDS AsCoded
CONSTANTS MaxN, Mode
VARIABLE c
P == <<"ap", "p">>  Q == <<"ap", "q">>
M0 == {P, Q}
Good == {<<"E", <<"X", a>>>> : a \in M0} \cup {<<"E", <<"F", a>>>> : a \in M0} \cup {<<"E", <<"U", a, b>>>> : a \in M0, b \in M0}
        \cup {<<"A", <<"X", a>>>> : a \in M0} \cup {<<"A", <<"G", a>>>> : a \in M0} \cup {<<"A", <<"R", a, b>>>> : a \in M0, b \in M0}
        \cup M0 \cup {Tr, <<"not", P>>, <<"and", P, Q>>}
Bad == {<<"E", <<"G", a>>>> : a \in M0} \cup {<<"A", <<"F", a>>>> : a \in M0} \cup {<<"A", <<"U", a, b>>>> : a \in M0, b \in M0}
       \cup {<<"E", <<"R", a, b>>>> : a \in M0, b \in M0}
Ks == KripkesUpTo(MaxN, {"p", "q"})
FairLists(K) == {{}} \cup {{X} : X \in SUBSET States(K)} \cup {{X, Y} : X \in SUBSET States(K), Y \in SUBSET States(K)}
Init == c = <<>>
Next == \/ c = <<>> /\ c' \in {<<k>> : k \in Ks}
        \/ Len(c) = 1 /\ c' \in {<<c[1], Fc, f>> : Fc \in FairLists(c[1]), f \in (IF Mode = "good" THEN Good ELSE Bad)}
Spec == Init /\ [][Next]_c
Full == Len(c) = 3
GoodReductions == Full => AsCodedCTL_FS(c[1], c[3], FairStatesSCC(c[1], c[2])) = SatFair(c[1], c[3], c[2])
BadReductions == GoodReductions
KF1Harmless == Full => PossibleFS_KF1(c[1], c[2]) = {FairStatesSCC(c[1], c[2])}
=========================================================================
