CONSTANTS
  Nodes = {0, 1, 2}
  AP = {"p", "q"}
  MaxObjs = 3
  Mutators = TRUE
  Depth = 8
SPECIFICATION Spec
INVARIANT Emit
CHECK_DEADLOCK FALSE
