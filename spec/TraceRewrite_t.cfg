CONSTANTS
  ScopeN = 2
  LassoB = 4
SPECIFICATION Spec
INVARIANT Done
POSTCONDITION Post
CHECK_DEADLOCK FALSE
