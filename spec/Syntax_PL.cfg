CONSTANTS
  Lenient = FALSE
  Mode = "PL"
SPECIFICATION Spec
INVARIANT InLogic
INVARIANT RoundTrip
INVARIANT CrossFeed
CHECK_DEADLOCK FALSE
