---------------------------- MODULE Syntax ----------------------------
(* Concrete syntax of the four logics at token level: the printer (Formula.__str__ of    *)
(* each language, as a token sequence - TLA+ strings are atomic, so text is modelled as  *)
(* a sequence of tokens and the harness tokenises str(f)) and the four documented Lark   *)
(* grammars as backtracking recursive-descent parsers that return the SET of             *)
(* <<tree, next position>> pairs (ambiguity, e.g. keyword-or-atom readings, is a union). *)
(* A token is <<kind, text>>: "w" word, "e" escaped string, "(" , ")", "s" symbol        *)
(* (~ | & -->), "bad" (a character no terminal matches).                                 *)
EXTENDS Formulas
CONSTANT Lenient   \* TRUE: a reserved word may also be read as an atom (superset of any correct parser: used to judge
                   \* acceptance, C10); FALSE: reserved words are keywords only (used for uniqueness of parses, C09)
W(s) == <<"w", s>>
LP == <<"(", "(">>
RP == <<")", ")">>
NotSyms == {"not", "~"}  OrSyms == {"or", "|"}  AndSyms == {"and", "&"}  ImpSyms == {"-->"}
Reserved == {"true", "false", "not", "or", "and", "A", "E", "X", "F", "G", "U", "R"}
RECURSIVE Join(_, _)
\* operands separated by the operator word
Join(parts, sep) == IF Len(parts) = 1 THEN parts[1] ELSE parts[1] \o <<sep>> \o Join(Tail(parts), sep)
OpWord(t) == CASE t = "not" -> "not" [] t = "or" -> "or" [] t = "and" -> "and" [] t = "imp" -> "-->" [] OTHER -> t
OpTok(t) == IF t = "imp" THEN <<"s", "-->">> ELSE W(OpWord(t))
\* ---- the printer.  style "ctls": PL / LTL / CTL* classes;  "ctl": CTL's own __str__
RECURSIVE Pr(_, _)
PrArgs(style, f) == AsTuple([i \in 1..(Len(f) - 1) |-> Pr(style, f[i + 1])])
Pr(style, f) == LET t == f[1] IN
  CASE t = "ap" -> <<W(f[2])>>
    [] t \in {"true", "false"} -> <<W(t)>>
    [] t = "not" -> <<W("not")>> \o Pr(style, f[2])
    [] t \in {"or", "and", "imp"} -> <<LP>> \o Join(PrArgs(style, f), OpTok(t)) \o <<RP>>
    [] t \in {"U", "R"} -> <<LP>> \o Join(PrArgs(style, f), W(t)) \o <<RP>>
    [] t \in {"X", "F", "G"} -> IF style = "ctl" THEN <<W(t)>> \o Pr(style, f[2])
                                ELSE <<W(t), LP>> \o Pr(style, f[2]) \o <<RP>>
    [] t \in {"A", "E"} -> IF style = "ctl" THEN <<W(t)>> \o Pr(style, f[2])      \* 'A{}': glued in text
                           ELSE <<W(t), LP>> \o Pr(style, f[2]) \o <<RP>>

\* ---- generic helpers for the recognisers
IsTok(toks, i, kind, texts) == i <= Len(toks) /\ toks[i][1] = kind /\ toks[i][2] \in texts
IsOp(toks, i, texts) == i <= Len(toks) /\ toks[i][1] \in {"w", "s"} /\ toks[i][2] \in texts
IsKw(toks, i, texts) == i <= Len(toks) /\ toks[i][1] = "w" /\ toks[i][2] \in texts
\* leaves common to all grammars: true / false / atomic proposition (any word may be read as an
\* atom: Lark's contextual lexer makes a reserved word a keyword only where the grammar admits it)
Leaves(toks, i) ==
  IF i > Len(toks) THEN {} ELSE
  LET t == toks[i] IN
     (IF t[1] = "w" /\ t[2] = "true" THEN {<< <<"true">>, i + 1 >>} ELSE {})
  \cup (IF t[1] = "w" /\ t[2] = "false" THEN {<< <<"false">>, i + 1 >>} ELSE {})
  \cup (IF t[1] = "e" \/ (t[1] = "w" /\ (Lenient \/ t[2] \notin Reserved)) THEN {<< <<"ap", t[2]>>, i + 1 >>} ELSE {})
Closed(rs, toks) == {<<r[1], r[2] + 1>> : r \in {q \in rs : IsTok(toks, q[2], ")", {")"})}}

\* ================================================================== CTL*  (CTLS/parser.py)
RECURSIVE SPS(_, _), SPU(_, _), SPP(_, _), SMore(_, _, _, _)
SPS(toks, i) ==
  IF i > Len(toks) THEN {} ELSE
  Leaves(toks, i)
  \cup (IF IsKw(toks, i, {"A", "E"}) THEN {<< <<toks[i][2], r[1]>>, r[2] >> : r \in SPU(toks, i + 1)} ELSE {})
  \cup (IF toks[i][1] = "(" THEN Closed(SPS(toks, i + 1), toks) ELSE {})
SPU(toks, i) ==
  IF i > Len(toks) THEN {} ELSE
     (IF IsKw(toks, i, {"X", "F", "G"}) THEN {<< <<toks[i][2], r[1]>>, r[2] >> : r \in SPU(toks, i + 1)} ELSE {})
  \cup (IF IsOp(toks, i, NotSyms) THEN {<< <<"not", r[1]>>, r[2] >> : r \in SPU(toks, i + 1)} ELSE {})
  \cup (IF toks[i][1] = "(" THEN Closed(SPP(toks, i + 1), toks) ELSE {})
  \cup SPS(toks, i)
\* (op u)+ after a first operand; acc = operand trees so far
SMore(toks, syms, j, acc) ==
  IF IsOp(toks, j, syms)
  THEN UNION {SMore(toks, syms, r[2], Append(acc, r[1])) \cup {<<Append(acc, r[1]), r[2]>>} : r \in SPU(toks, j + 1)}
  ELSE {}
SPP(toks, i) ==
  LET firsts == SPU(toks, i) IN
  firsts
  \cup UNION {{<< <<"or">> \o q[1], q[2] >> : q \in SMore(toks, OrSyms, r[2], <<r[1]>>)} : r \in firsts}
  \cup UNION {{<< <<"and">> \o q[1], q[2] >> : q \in SMore(toks, AndSyms, r[2], <<r[1]>>)} : r \in firsts}
  \cup UNION {IF IsOp(toks, r[2], ImpSyms) THEN {<< <<"imp", r[1], q[1]>>, q[2] >> : q \in SPU(toks, r[2] + 1)} ELSE {} : r \in firsts}
  \cup UNION {IF IsKw(toks, r[2], {"U"}) THEN {<< <<"U", r[1], q[1]>>, q[2] >> : q \in SPU(toks, r[2] + 1)} ELSE {} : r \in firsts}
  \cup UNION {IF IsKw(toks, r[2], {"R"}) THEN {<< <<"R", r[1], q[1]>>, q[2] >> : q \in SPU(toks, r[2] + 1)} ELSE {} : r \in firsts}

\* ================================================================== LTL  (LTL/parser.py)
RECURSIVE LPU(_, _), LPP(_, _), LMore(_, _, _, _)
LPU(toks, i) ==
  IF i > Len(toks) THEN {} ELSE
  Leaves(toks, i)
  \cup (IF toks[i][1] = "(" THEN Closed(LPP(toks, i + 1), toks) ELSE {})
  \cup (IF IsOp(toks, i, NotSyms) THEN {<< <<"not", r[1]>>, r[2] >> : r \in LPU(toks, i + 1)} ELSE {})
  \cup (IF IsKw(toks, i, {"X", "F", "G"}) THEN {<< <<toks[i][2], r[1]>>, r[2] >> : r \in LPU(toks, i + 1)} ELSE {})
LMore(toks, syms, j, acc) ==
  IF IsOp(toks, j, syms)
  THEN UNION {LMore(toks, syms, r[2], Append(acc, r[1])) \cup {<<Append(acc, r[1]), r[2]>>} : r \in LPU(toks, j + 1)}
  ELSE {}
LPP(toks, i) ==
  LET firsts == LPU(toks, i) IN
  firsts
  \cup UNION {{<< <<"or">> \o q[1], q[2] >> : q \in LMore(toks, OrSyms, r[2], <<r[1]>>)} : r \in firsts}
  \cup UNION {{<< <<"and">> \o q[1], q[2] >> : q \in LMore(toks, AndSyms, r[2], <<r[1]>>)} : r \in firsts}
  \cup UNION {IF IsOp(toks, r[2], ImpSyms) THEN {<< <<"imp", r[1], q[1]>>, q[2] >> : q \in LPU(toks, r[2] + 1)} ELSE {} : r \in firsts}
  \cup UNION {IF IsKw(toks, r[2], {"U"}) THEN {<< <<"U", r[1], q[1]>>, q[2] >> : q \in LPU(toks, r[2] + 1)} ELSE {} : r \in firsts}
  \cup UNION {IF IsKw(toks, r[2], {"R"}) THEN {<< <<"R", r[1], q[1]>>, q[2] >> : q \in LPU(toks, r[2] + 1)} ELSE {} : r \in firsts}
\* formula: s_formula | p_formula ;  s_formula: A u_formula
LTop(toks) == LPP(toks, 1) \cup (IF IsKw(toks, 1, {"A"}) THEN {<< <<"A", r[1]>>, r[2] >> : r \in LPU(toks, 2)} ELSE {})

\* ================================================================== CTL  (CTL/parser.py)
RECURSIVE CPS(_, _), CPU(_, _), CPP(_, _), CMore(_, _, _, _)
CPS(toks, i) ==
  IF i > Len(toks) THEN {} ELSE
  Leaves(toks, i)
  \cup (IF IsKw(toks, i, {"A", "E"}) THEN {<< <<toks[i][2], r[1]>>, r[2] >> : r \in CPP(toks, i + 1)} ELSE {})
  \cup (IF IsOp(toks, i, NotSyms) THEN {<< <<"not", r[1]>>, r[2] >> : r \in CPS(toks, i + 1)} ELSE {})
  \cup (IF toks[i][1] = "(" THEN Closed(CPU(toks, i + 1), toks) ELSE {})
CMore(toks, syms, j, acc) ==
  IF IsOp(toks, j, syms)
  THEN UNION {CMore(toks, syms, r[2], Append(acc, r[1])) \cup {<<Append(acc, r[1]), r[2]>>} : r \in CPS(toks, j + 1)}
  ELSE {}
CPU(toks, i) ==
  LET firsts == CPS(toks, i) IN
  firsts
  \cup UNION {{<< <<"or">> \o q[1], q[2] >> : q \in CMore(toks, OrSyms, r[2], <<r[1]>>)} : r \in firsts}
  \cup UNION {{<< <<"and">> \o q[1], q[2] >> : q \in CMore(toks, AndSyms, r[2], <<r[1]>>)} : r \in firsts}
  \cup UNION {IF IsOp(toks, r[2], ImpSyms) THEN {<< <<"imp", r[1], q[1]>>, q[2] >> : q \in CPS(toks, r[2] + 1)} ELSE {} : r \in firsts}
CPP(toks, i) ==
  IF i > Len(toks) THEN {} ELSE
     (IF IsKw(toks, i, {"X", "F", "G"}) THEN {<< <<toks[i][2], r[1]>>, r[2] >> : r \in CPS(toks, i + 1)} ELSE {})
  \cup UNION {IF IsKw(toks, r[2], {"U", "R"}) THEN {<< <<toks[r[2]][2], r[1], q[1]>>, q[2] >> : q \in CPS(toks, r[2] + 1)} ELSE {} : r \in CPS(toks, i)}
  \cup (IF toks[i][1] = "(" THEN Closed(CPP(toks, i + 1), toks) ELSE {})

\* ================================================================== PL  (PL/parser.py)
RECURSIVE PPS(_, _), PPU(_, _), PPB(_, _), PMore(_, _, _, _)
PPS(toks, i) ==
  IF i > Len(toks) THEN {} ELSE
  Leaves(toks, i) \cup (IF toks[i][1] = "(" THEN Closed(PPS(toks, i + 1), toks) ELSE {})
PPU(toks, i) ==
  IF i > Len(toks) THEN {} ELSE
     (IF IsOp(toks, i, NotSyms) THEN {<< <<"not", r[1]>>, r[2] >> : r \in PPU(toks, i + 1)} ELSE {})
  \cup (IF toks[i][1] = "(" THEN Closed(PPB(toks, i + 1), toks) ELSE {})
  \cup PPS(toks, i)
PMore(toks, syms, j, acc) ==
  IF IsOp(toks, j, syms)
  THEN UNION {PMore(toks, syms, r[2], Append(acc, r[1])) \cup {<<Append(acc, r[1]), r[2]>>} : r \in PPU(toks, j + 1)}
  ELSE {}
PPB(toks, i) ==
  LET firsts == PPU(toks, i) IN
  firsts
  \cup UNION {{<< <<"or">> \o q[1], q[2] >> : q \in PMore(toks, OrSyms, r[2], <<r[1]>>)} : r \in firsts}
  \cup UNION {{<< <<"and">> \o q[1], q[2] >> : q \in PMore(toks, AndSyms, r[2], <<r[1]>>)} : r \in firsts}
  \cup UNION {IF IsOp(toks, r[2], ImpSyms) THEN {<< <<"imp", r[1], q[1]>>, q[2] >> : q \in PPU(toks, r[2] + 1)} ELSE {} : r \in firsts}

\* trees of the complete parses of a token sequence in a language
Complete(rs, toks) == {r[1] : r \in {q \in rs : q[2] = Len(toks) + 1}}
Derives(lang, toks) ==
  IF \E i \in 1..Len(toks) : toks[i][1] = "bad" THEN {}
  ELSE CASE lang = "CTLS" -> Complete(SPP(toks, 1), toks)
         [] lang = "LTL"  -> Complete(LTop(toks), toks)
         [] lang = "CTL"  -> Complete(CPP(toks, 1) \cup CPU(toks, 1), toks)
         [] lang = "PL"   -> Complete(PPB(toks, 1), toks)
=======================================================================
