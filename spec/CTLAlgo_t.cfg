CONSTANTS
  MaxN = 3
  Family2 <- Fam2
SPECIFICATION Spec
INVARIANT MemoExact
CHECK_DEADLOCK FALSE
