CONSTANTS
  MaxN = 2
  B = 4
  Mode = "ctl1"
SPECIFICATION Spec
INVARIANT AgreeCTL
INVARIANT Laws
INVARIANT Submodel
CHECK_DEADLOCK FALSE
