CONSTANTS
  ScopeN = 2
  LassoB = 3
SPECIFICATION Spec
INVARIANT Done
POSTCONDITION Post
CHECK_DEADLOCK FALSE
