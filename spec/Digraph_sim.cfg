CONSTANTS
  Nodes = {0, 1, 2}
  MaxObjs = 3
  Depth = 10
SPECIFICATION Spec
INVARIANT Emit
INVARIANT WellFormed
CHECK_DEADLOCK FALSE
