-------------------------- MODULE TraceLaws --------------------------
(* Code -> spec, reference-free: relational conformance of groups of recorded            *)
(* modelcheck calls (C04 agreement and semantic laws, C06 presentation independence).    *)
(* One ndjson line per group:                                                            *)
(*   {tid, law, n, R, L, members: [{logic, f, mode, pres, out: {ret,isset,foreign}|{exc}}, ..]}  *)
(* law = "equal"  all members return the same set (same formula through several checkers *)
(*                / as text or object / under several presentations, or two formulas     *)
(*                related by a duality or fixpoint-expansion law)                        *)
(*       "compl"  members = <f, not f>:  second = S \ first                              *)
(*       "and" / "or" / "imp"  members = <f, g, f op g>                                  *)
(*       "ext"    members = <K, K + unreachable part>: equal on the states of K          *)
(* The verdict never consults the semantics for the expected VALUE; the semantics is     *)
(* only used to make sure the harness grouped formulas that really are equivalent        *)
(* (a LAW-ORACLE failure is a machinery failure, not a verdict).                         *)
EXTENDS Semantics, Json, IOUtils, TLCExt
TraceLog == ndJsonDeserialize(IOEnv.TRACE_FILE)
VARIABLES l, fails
ToSet(seq) == {seq[i] : i \in 1..Len(seq)}
MkK(e) == [n |-> e.n, R |-> {<<p[1], p[2]>> : p \in ToSet(e.R)},
           L |-> [s \in 0..(e.n-1) |-> ToSet(e.L[s+1])]]
Has(e, k) == k \in DOMAIN e
Ok(m) == Has(m.out, "ret") /\ m.out.isset /\ m.out.foreign = 0
Ret(m) == ToSet(m.out.ret)
Skipped(e) == \E i \in 1..Len(e.members) : Has(e.members[i].out, "skipped")
Relation(e) ==
  LET M == e.members  S == 0..(e.n - 1) IN
  IF \E i \in 1..Len(M) : ~Ok(M[i]) THEN "violation:exception-or-shape"
  ELSE CASE e.law = "equal" -> IF \A i \in 2..Len(M) : Ret(M[i]) = Ret(M[1]) THEN "ok" ELSE "violation:equal"
         [] e.law = "ext"   -> IF \A i \in 2..Len(M) : Ret(M[i]) \cap S = Ret(M[1]) THEN "ok" ELSE "violation:ext"
         [] e.law = "compl" -> IF Ret(M[2]) = S \ Ret(M[1]) THEN "ok" ELSE "violation:compl"
         [] e.law = "and"   -> IF Ret(M[3]) = Ret(M[1]) \cap Ret(M[2]) THEN "ok" ELSE "violation:and"
         [] e.law = "or"    -> IF Ret(M[3]) = Ret(M[1]) \cup Ret(M[2]) THEN "ok" ELSE "violation:or"
         [] e.law = "imp"   -> IF Ret(M[3]) = (S \ Ret(M[1])) \cup Ret(M[2]) THEN "ok" ELSE "violation:imp"
\* the grouped formulas must be equivalent on K by the semantics (guards the harness)
LawIsTheorem(e) ==
  LET M == e.members  K == MkK(e) IN
  ~(e.law = "equal" /\ Has(e, "checklaw")) \/ \A i \in 2..Len(M) : SatStar(K, M[i].f) = SatStar(K, M[1].f)
Init == l = 1 /\ fails = <<>>
Next == /\ l <= Len(TraceLog)
        /\ LET e == TraceLog[l]
               v == IF Skipped(e) THEN "ok" ELSE IF ~LawIsTheorem(e) THEN "ORACLE:law" ELSE Relation(e)
           IN fails' = IF v = "ok" THEN fails ELSE Append(fails, [tid |-> e.tid, v |-> v])
        /\ l' = l + 1
Spec == Init /\ [][Next]_<<l, fails>>
Done == (l = Len(TraceLog) + 1) => JsonSerialize(IOEnv.OUT_FILE, [n |-> Len(TraceLog), fails |-> fails])
Post == TLCGet("stats").diameter = Len(TraceLog) + 1
=======================================================================
