CONSTANTS
  Order <- Order2
  Handles = {h1, h2, h3}
  MaxNodes = 6
  GCMode = "tracing"
  Depth = 0
SPECIFICATION Spec
CONSTRAINT Bound
INVARIANT Unique
INVARIANT Reduced
INVARIANT Ordered
INVARIANT Closed
INVARIANT IndexComplete
INVARIANT IndexSound
INVARIANT Canonical
INVARIANT OpCorrect
CHECK_DEADLOCK FALSE
VIEW CanonView
SYMMETRY Sym
