--------------------------- MODULE BoolExpr ---------------------------
(* Boolean expressions as the OBDD constructor accepts them (BDD/OBDD.py): ASTs          *)
(*   <<"var", name>>, <<"const", 0|1>>, <<"not", e>>, <<"and", e1, e2>>, <<"or", e1, e2>>,*)
(*   <<"bad", kind>>  (non-Boolean syntax: arithmetic, comparison, call, number 2, ...)  *)
(* their denotation, and the reduced ordered BDD of a function as a structure tree       *)
(* (terminals <<"t",0>> / <<"t",1>>, nodes <<var, low, high>>): since the reduced ordered *)
(* diagram of a function is unique, structural identity with Robdd decides correctness,  *)
(* reducedness and ordering at once (C17), and equality of functions decides ==  (C16).  *)
EXTENDS Naturals, Sequences, FiniteSets, TLC
SeqSet(s) == {s[i] : i \in 1..Len(s)}
RECURSIVE Ev(_, _)
Ev(e, asg) == CASE e[1] = "var" -> e[2] \in asg
                [] e[1] = "const" -> e[2] = 1
                [] e[1] = "not" -> ~Ev(e[2], asg)
                [] e[1] = "and" -> Ev(e[2], asg) /\ Ev(e[3], asg)
                [] e[1] = "or" -> Ev(e[2], asg) \/ Ev(e[3], asg)
RECURSIVE VarsOf(_)
VarsOf(e) == CASE e[1] = "var" -> {e[2]}
               [] e[1] \in {"const", "bad"} -> {}
               [] e[1] = "not" -> VarsOf(e[2])
               [] OTHER -> VarsOf(e[2]) \cup VarsOf(e[3])
RECURSIVE HasBad(_)
HasBad(e) == CASE e[1] = "bad" -> TRUE
               [] e[1] \in {"var", "const"} -> FALSE
               [] e[1] = "not" -> HasBad(e[2])
               [] OTHER -> HasBad(e[2]) \/ HasBad(e[3])
\* truth table over an ordering = set of satisfying assignments (sets of true variables)
TT(e, ord) == {asg \in SUBSET SeqSet(ord) : Ev(e, asg)}
RECURSIVE Build(_, _, _, _)
Build(tt, ord, i, fixed) ==
  IF i > Len(ord) THEN <<"t", IF fixed \in tt THEN 1 ELSE 0>>
  ELSE LET lo == Build(tt, ord, i + 1, fixed)
           hi == Build(tt, ord, i + 1, fixed \cup {ord[i]})
       IN IF lo = hi THEN lo ELSE <<ord[i], lo, hi>>
Robdd(tt, ord) == Build(tt, ord, 1, {})
\* essential variables of a function = the support of its reduced diagram
Support(tt, ord) == {v \in SeqSet(ord) : \E asg \in SUBSET SeqSet(ord) : (asg \in tt) # ((asg \cup {v}) \in tt) /\ v \notin asg}
BinTT(bop, A, B) == CASE bop = "and" -> A \cap B [] bop = "or" -> A \cup B [] bop = "xor" -> (A \cup B) \ (A \cap B)
=======================================================================
