CONSTANTS
  MaxN = 2
  Mode = "good"
SPECIFICATION Spec
INVARIANT KF1Harmless
CHECK_DEADLOCK FALSE
