---- MODULE MC_BDD ----
EXTENDS BDD
Order2 == <<"a", "b">>
Order3 == <<"a", "b", "c">>
Sym == Permutations(Handles)
====
