CONSTANTS
  MaxN = 1
  Mode = "capture"
SPECIFICATION Spec
INVARIANT ElimExact
CHECK_DEADLOCK FALSE
