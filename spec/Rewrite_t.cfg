CONSTANTS
  ScopeN = 2
  LassoB = 4
SPECIFICATION Spec
INVARIANT RuleCTL
INVARIANT RulePath
CHECK_DEADLOCK FALSE
