---------------------------- MODULE MC_LargeShapes ----------------------------
(* R2: the closed forms of LargeShapes agree with the generic definitions for every lasso with n <= MaxN. *)
EXTENDS LargeShapes, TLC
CONSTANT MaxN
VARIABLES n, b, m
Init == n \in 2..MaxN /\ b \in 0..(MaxN - 1) /\ m \in 1..(MaxN - 1) /\ b <= n - 1 /\ m <= n - 1
Next == UNCHANGED <<n, b, m>>
Spec == Init /\ [][Next]_<<n, b, m>>
G == LassoG(n, b)
K == LassoK(n, b, m)
GraphOK == /\ \A X \in SUBSET G.V : GReach(G, X) = ReachL(n, b, X) /\ GReach(GReverse(G), X) = BackL(n, b, X)
           /\ GSCCs(G) = SCCsL(n, b)
CTLOK == \A nm \in {x \in Names : IsCTL(x)} : SatCTL(K, StateFormula(nm)) = Closed(nm, n, b, m)
StarOK == \A nm \in Names : SatStar(K, StateFormula(nm)) = Closed(nm, n, b, m)
===============================================================================
