------------------------- MODULE TraceKripke -------------------------
(* Code -> spec: total-verdict validation of recorded Kripke call histories against      *)
(* KripkeLib.  Each line: {tid, trace, i, op, g, <args>, new, out, pool} where pool maps *)
(* object ids to the full projection {S, S0, R, L: [[s,[atoms]],..], lids: [ints]} after *)
(* the call; lids are the identities of the label-set objects (C14: no label set is      *)
(* shared between two structures).                                                       *)
EXTENDS KripkeLib, IOUtils, TLCExt
TraceLog == ndJsonDeserialize(IOEnv.TRACE_FILE)
VARIABLES l, fails, sp, broken
ToSet(seq) == {seq[i] : i \in 1..Len(seq)}
Pairs(seq) == {<<p[1], p[2]>> : p \in ToSet(seq)}
Has(e, k) == k \in DOMAIN e
LabelFn(seq) == [s \in {p[1] : p \in ToSet(seq)} |-> ToSet((CHOOSE p \in ToSet(seq) : p[1] = s)[2])]
KOf(j) == [S |-> ToSet(j.S), S0 |-> ToSet(j.S0), R |-> Pairs(j.R), L |-> LabelFn(j.L)]
Ids(e) == {x \in 1..20 : ToString(x) \in DOMAIN e.pool}
ProjPool(e) == [id \in Ids(e) |-> KOf(e.pool[ToString(id)])]
\* label-set identities: pairwise distinct over the whole pool
NoSharing(e) == LET all == UNION {{<<id, k>> : k \in 1..Len(e.pool[ToString(id)].lids)} : id \in Ids(e)}
                    idOf(x) == e.pool[ToString(x[1])].lids[x[2]]
                IN \A x \in all, y \in all : x # y => idOf(x) # idOf(y)
CallOf(e) == IF Has(e, "X") THEN [e EXCEPT !.X = ToSet(e.X)]
             ELSE IF e.op = "relabel" THEN [op |-> "relabel", L |-> LabelFn(e.Lkv)] ELSE e
RetMatches(e, o) ==
  CASE e.op \in {"labels", "next", "states", "alllabels"} -> ToSet(e.out.ret) = o.ret
    [] e.op = "transitions" -> Pairs(e.out.ret) = o.ret
    [] e.op = "relabel" -> LabelFn(e.out.ret) = o.ret
    [] OTHER -> TRUE                      \* clone / sub: the new object is compared through the pool
Judge(e, P) ==
  LET o == IF e.op = "new" THEN CtorOutcome(ToSet(e.S), ToSet(e.S0), Pairs(e.R), LabelFn(e.Lkv))
           ELSE IF e.op = "drop" THEN [ret |-> "none"]
           ELSE Outcome(P[e.g], CallOf(e))
      P2 == IF e.op = "drop" THEN [x \in DOMAIN P \ {e.g} |-> P[x]]
            ELSE IF (e.op = "new" \/ MakesObject(e.op)) /\ Has(o, "ret") THEN Put(P, e.new, o.ret)
            ELSE IF IsMutator(e.op) THEN Put(P, e.g, Effect(P[e.g], CallOf(e)))
            ELSE P
  IN IF Has(o, "exc") /\ ~Has(e.out, "exc") THEN [v |-> "violation:outcome:" \o e.op \o " should raise " \o o.exc, pool |-> P2]
     ELSE IF Has(o, "exc") /\ e.out.exc # o.exc THEN [v |-> "violation:outcome:" \o e.op \o " raised " \o e.out.exc, pool |-> P2]
     ELSE IF Has(o, "ret") /\ Has(e.out, "exc") THEN [v |-> "violation:outcome:" \o e.op \o " raised " \o e.out.exc, pool |-> P2]
     ELSE IF Has(o, "ret") /\ ~RetMatches(e, o) THEN [v |-> "violation:result:" \o e.op, pool |-> P2]
     ELSE IF ProjPool(e) # P2 THEN [v |-> "violation:state:" \o e.op, pool |-> P2]
     \* every structure that comes out of the constructor / clone / get_substructure satisfies the class invariant (C14)
     ELSE IF (e.op = "new" \/ MakesObject(e.op)) /\ Has(o, "ret") /\ ~KripkeInvOf(P2[e.new]) THEN [v |-> "ORACLE:KripkeInv", pool |-> P2]
     ELSE IF ~NoSharing(e) THEN [v |-> "violation:sharing:" \o e.op, pool |-> P2]
     ELSE [v |-> "ok", pool |-> P2]
TInit == l = 1 /\ fails = <<>> /\ sp = <<>> /\ broken = FALSE
TNext == /\ l <= Len(TraceLog)
         /\ LET e == TraceLog[l]
                fresh == e.i = 0
                P == IF fresh THEN <<>> ELSE sp
                skip == broken /\ ~fresh
                j == IF skip THEN [v |-> "ok", pool |-> sp] ELSE Judge(e, P)
            IN /\ fails' = IF j.v = "ok" THEN fails ELSE Append(fails, [tid |-> e.tid, v |-> j.v])
               /\ sp' = j.pool
               /\ broken' = IF skip THEN TRUE ELSE j.v # "ok"
         /\ l' = l + 1
         /\ UNCHANGED <<pool, hist, args>>
TSpec == TInit /\ Init /\ [][TNext]_<<l, fails, sp, broken, pool, hist, args>>
Done == (l = Len(TraceLog) + 1) => JsonSerialize(IOEnv.OUT_FILE, [n |-> Len(TraceLog), fails |-> fails])
TPost == TLCGet("stats").diameter = Len(TraceLog) + 1
=======================================================================
