------------------------------ MODULE TraceBig ------------------------------
(* Code -> spec on LARGE structures: calls of the real code on lassos with thousands of   *)
(* states, judged by the closed forms of LargeShapes (checked against the generic          *)
(* definitions for every n <= 6 by MC_LargeShapes).  One line per call:                    *)
(*   {tid, op:"reach"|"back"|"sccs", n, b, X, out:{ret}|{exc}}                             *)
(*   {tid, op:"mc", logic, name, n, b, m, out:{ret,isset,foreign}|{exc}}                   *)
EXTENDS LargeShapes, Json, IOUtils, TLCExt
TraceLog == ndJsonDeserialize(IOEnv.TRACE_FILE)
VARIABLES l, fails
ToSet(seq) == {seq[i] : i \in 1..Len(seq)}
Has(e, k) == k \in DOMAIN e
Verdict(e) ==
  IF Has(e.out, "skipped") THEN "ok"
  ELSE IF Has(e.out, "exc") THEN "violation:exception " \o e.out.exc
  ELSE CASE e.op = "reach" -> IF ToSet(e.out.ret) = ReachL(e.n, e.b, ToSet(e.X)) /\ Len(e.out.ret) = Cardinality(ToSet(e.out.ret)) THEN "ok" ELSE "violation:result:reach"
         [] e.op = "back" -> IF ToSet(e.out.ret) = BackL(e.n, e.b, ToSet(e.X)) THEN "ok" ELSE "violation:result:reversed-reach"
         [] e.op = "sccs" -> LET comps == e.out.ret IN
              IF /\ \A k \in 1..Len(comps) : Len(comps[k]) = Cardinality(ToSet(comps[k]))
                 /\ Len(comps) = Cardinality({ToSet(comps[k]) : k \in 1..Len(comps)})
                 /\ {ToSet(comps[k]) : k \in 1..Len(comps)} = SCCsL(e.n, e.b)
              THEN "ok" ELSE "violation:result:sccs"
         [] e.op = "mc" -> IF ~e.out.isset THEN "violation:not-a-set"
                           ELSE IF e.out.foreign # 0 THEN "violation:foreign-elements"
                           ELSE IF ToSet(e.out.ret) = Closed(e.name, e.n, e.b, e.m) THEN "ok" ELSE "violation:result"
Init == l = 1 /\ fails = <<>>
Next == /\ l <= Len(TraceLog)
        /\ LET e == TraceLog[l]  v == Verdict(e) IN fails' = IF v = "ok" THEN fails ELSE Append(fails, [tid |-> e.tid, v |-> v])
        /\ l' = l + 1
Spec == Init /\ [][Next]_<<l, fails>>
Done == (l = Len(TraceLog) + 1) => JsonSerialize(IOEnv.OUT_FILE, [n |-> Len(TraceLog), fails |-> fails])
Post == TLCGet("stats").diameter = Len(TraceLog) + 1
=============================================================================
