CONSTANTS
  MaxN = 3
  Mode = "good"
SPECIFICATION Spec
INVARIANT GoodReductions
CHECK_DEADLOCK FALSE
