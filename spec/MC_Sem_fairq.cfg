CONSTANTS
  MaxN = 2
  B = 4
  Mode = "fairq"
SPECIFICATION Spec
INVARIANT FairAgree
CHECK_DEADLOCK FALSE
