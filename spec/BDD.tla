----------------------------- MODULE BDD -----------------------------
(* The hash-consed BDD package (BDD/BDD.py, BDD/OBDD.py) as a heap machine.               *)
(* Layer A: caller-held OBDD handles denote Boolean functions; == is "same root".         *)
(* Layer B: the unique table is a web of WEAK parent indexes (f_low / f_high WeakSets of  *)
(* every node); BDDNonTerminalNode.__new__ = Mk below searches the SMALLER of the two     *)
(* indexes of the children (find_isomorph) and allocates otherwise; apply / ~ / restrict  *)
(* are the recursive Shannon expansions of the code.  Nodes die when nothing reachable    *)
(* from a live handle (or a parked one: limbo) points to them:                            *)
(*   GCMode = "refcount"  CPython: garbage disappears at once, after every action         *)
(*   GCMode = "tracing"   garbage lingers; Collect(X) frees ANY freeable subset (explores *)
(*                        every collection timing, stale-index hazards included)          *)
EXTENDS Naturals, Sequences, FiniteSets, TLC, Json
CONSTANTS Order,      \* sequence of variable names
          Handles,    \* names of caller-held OBDD objects
          MaxNodes,   \* bound on live non-terminal nodes (state constraint)
          GCMode, Depth
Vars == {Order[i] : i \in 1..Len(Order)}
Pos(v) == CHOOSE i \in 1..Len(Order) : Order[i] = v
F == 0  T == 1
IsTerm(n) == n \in {F, T}
VARIABLES heap,        \* id -> [var, lo, hi]   live non-terminal nodes
          flow, fhigh, \* id -> set of parent ids   (the WeakSets; domain = DOMAIN heap \cup {F,T})
          handles,     \* handle -> node id
          limbo,       \* parked handles (dropped by the caller's name, object still referenced) -> node id
          hist
vars == <<heap, flow, fhigh, handles, limbo, hist>>
Ids == 2..(MaxNodes + 40)
NewId(h) == CHOOSE i \in Ids : i \notin DOMAIN h /\ \A j \in Ids : j < i => j \in DOMAIN h
Store == [heap |-> heap, flow |-> flow, fhigh |-> fhigh]
\* BDDNonTerminalNode.__new__ : `low is high`, find_isomorph over the smaller weak index, allocate
Mk(st, v, lo, hi) ==
  IF lo = hi THEN [st |-> st, id |-> lo]
  ELSE LET cand == IF Cardinality(st.flow[lo]) < Cardinality(st.fhigh[hi])
                   THEN {n \in st.flow[lo] : st.heap[n].var = v /\ st.heap[n].hi = hi}
                   ELSE {n \in st.fhigh[hi] : st.heap[n].var = v /\ st.heap[n].lo = lo}
       IN IF cand # {} THEN [st |-> st, id |-> CHOOSE n \in cand : TRUE]
          ELSE LET id == NewId(st.heap)
                   h2 == [x \in DOMAIN st.heap \cup {id} |-> IF x = id THEN [var |-> v, lo |-> lo, hi |-> hi] ELSE st.heap[x]]
                   fl0 == [x \in DOMAIN st.flow \cup {id} |-> IF x = id THEN {} ELSE st.flow[x]]
                   fh0 == [x \in DOMAIN st.fhigh \cup {id} |-> IF x = id THEN {} ELSE st.fhigh[x]]
               IN [st |-> [heap |-> h2,
                           flow |-> [fl0 EXCEPT ![lo] = @ \cup {id}],
                           fhigh |-> [fh0 EXCEPT ![hi] = @ \cup {id}]],
                   id |-> id]
OpVal(op, x, y) == CASE op = "and" -> IF x = T /\ y = T THEN T ELSE F
                     [] op = "or" -> IF x = T \/ y = T THEN T ELSE F
                     [] op = "xor" -> IF x # y THEN T ELSE F
RECURSIVE App(_, _, _, _)
App(st, op, a, b) ==
  IF IsTerm(a) /\ IsTerm(b) THEN [st |-> st, id |-> OpVal(op, a, b)]
  ELSE LET va == IF IsTerm(a) THEN Len(Order) + 1 ELSE Pos(st.heap[a].var)
           vb == IF IsTerm(b) THEN Len(Order) + 1 ELSE Pos(st.heap[b].var)
           top == IF va <= vb THEN va ELSE vb
           alo == IF va = top THEN st.heap[a].lo ELSE a
           ahi == IF va = top THEN st.heap[a].hi ELSE a
           blo == IF vb = top THEN st.heap[b].lo ELSE b
           bhi == IF vb = top THEN st.heap[b].hi ELSE b
           r1 == App(st, op, alo, blo)
           r2 == App(r1.st, op, ahi, bhi)
       IN Mk(r2.st, Order[top], r1.id, r2.id)
RECURSIVE Inv(_, _)
Inv(st, a) == IF IsTerm(a) THEN [st |-> st, id |-> IF a = T THEN F ELSE T]
              ELSE LET r1 == Inv(st, st.heap[a].lo)  r2 == Inv(r1.st, st.heap[a].hi) IN Mk(r2.st, st.heap[a].var, r1.id, r2.id)
RECURSIVE Res(_, _, _, _)
Res(st, a, v, b) == IF IsTerm(a) THEN [st |-> st, id |-> a]
   ELSE IF st.heap[a].var = v THEN Res(st, IF b THEN st.heap[a].hi ELSE st.heap[a].lo, v, b)
   ELSE LET r1 == Res(st, st.heap[a].lo, v, b)  r2 == Res(r1.st, st.heap[a].hi, v, b) IN Mk(r2.st, st.heap[a].var, r1.id, r2.id)
\* ---- garbage
RECURSIVE DescOf(_, _)
DescOf(hp, X) == LET X2 == X \cup UNION {{hp[n].lo, hp[n].hi} : n \in X \ {F, T}} IN IF X2 = X THEN X ELSE DescOf(hp, X2)
Roots(hs, lb) == {hs[h] : h \in DOMAIN hs} \cup {lb[h] : h \in DOMAIN lb}
\* the store with every node unreachable from the given roots removed (index entries die with the nodes)
Sweep(st, roots) ==
  LET keep == DescOf(st.heap, roots) \cup {F, T}
      dead == DOMAIN st.heap \ keep
  IN [heap |-> [n \in DOMAIN st.heap \ dead |-> st.heap[n]],
      flow |-> [n \in DOMAIN st.flow \ dead |-> st.flow[n] \ dead],
      fhigh |-> [n \in DOMAIN st.fhigh \ dead |-> st.fhigh[n] \ dead]]
Settle(st, hs, lb) == IF GCMode = "refcount" THEN Sweep(st, Roots(hs, lb)) ELSE st
Install(r, h, rec) ==
  LET hs == [x \in DOMAIN handles \cup {h} |-> IF x = h THEN r.id ELSE handles[x]]
      st == Settle(r.st, hs, limbo)
  IN /\ heap' = st.heap /\ flow' = st.flow /\ fhigh' = st.fhigh /\ handles' = hs
     /\ hist' = Append(hist, rec) /\ UNCHANGED limbo
Free == Handles \ (DOMAIN handles \cup DOMAIN limbo)
Init == /\ heap = <<>> /\ flow = [x \in {F, T} |-> {}] /\ fhigh = [x \in {F, T} |-> {}]
        /\ handles = <<>> /\ limbo = <<>> /\ hist = <<>>
NewVar(h, v) == h \in Free /\ Install(Mk(Store, v, F, T), h, [op |-> "var", h |-> h, v |-> v])
NewConst(h, b) == h \in Free /\ Install([st |-> Store, id |-> IF b THEN T ELSE F], h, [op |-> "const", h |-> h, b |-> b])
ApplyOp(op, h1, h2, h) == /\ h \in Free /\ h1 \in DOMAIN handles /\ h2 \in DOMAIN handles
                          /\ Install(App(Store, op, handles[h1], handles[h2]), h, [op |-> "apply", bop |-> op, h1 |-> h1, h2 |-> h2, h |-> h])
NotOp(h1, h) == h \in Free /\ h1 \in DOMAIN handles /\ Install(Inv(Store, handles[h1]), h, [op |-> "not", h1 |-> h1, h |-> h])
Restrict(h1, v, b, h) == h \in Free /\ h1 \in DOMAIN handles
                         /\ Install(Res(Store, handles[h1], v, b), h, [op |-> "restrict", h1 |-> h1, v |-> v, b |-> b, h |-> h])
\* the caller forgets the name but the object is still referenced somewhere (a list, a closure)
Park(h) == /\ h \in DOMAIN handles
           /\ handles' = [x \in DOMAIN handles \ {h} |-> handles[x]]
           /\ limbo' = [x \in DOMAIN limbo \cup {h} |-> IF x = h THEN handles[h] ELSE limbo[x]]
           /\ hist' = Append(hist, [op |-> "park", h |-> h]) /\ UNCHANGED <<heap, flow, fhigh>>
\* the last reference goes away
Release(h) == /\ h \in DOMAIN handles \cup DOMAIN limbo
              /\ LET hs == [x \in DOMAIN handles \ {h} |-> handles[x]]
                     lb == [x \in DOMAIN limbo \ {h} |-> limbo[x]]
                     st == Settle(Store, hs, lb)
                 IN /\ handles' = hs /\ limbo' = lb
                    /\ heap' = st.heap /\ flow' = st.flow /\ fhigh' = st.fhigh
              /\ hist' = Append(hist, [op |-> "release", h |-> h])
Garbage == DOMAIN heap \ DescOf(heap, Roots(handles, limbo))
\* tracing collector: any subset of the garbage that no surviving node points into
Collect(X) == /\ GCMode = "tracing" /\ X # {} /\ X \subseteq Garbage
              /\ \A n \in X : \A p \in DOMAIN heap \ X : heap[p].lo # n /\ heap[p].hi # n
              /\ heap' = [n \in DOMAIN heap \ X |-> heap[n]]
              /\ flow' = [n \in DOMAIN flow \ X |-> flow[n] \ X]
              /\ fhigh' = [n \in DOMAIN fhigh \ X |-> fhigh[n] \ X]
              /\ hist' = Append(hist, [op |-> "gc"]) /\ UNCHANGED <<handles, limbo>>
Next == \/ \E h \in Handles, v \in Vars : NewVar(h, v)
        \/ \E h \in Handles, b \in BOOLEAN : NewConst(h, b)
        \/ \E op \in {"and", "or", "xor"}, h1, h2, h \in Handles : ApplyOp(op, h1, h2, h)
        \/ \E h1, h \in Handles : NotOp(h1, h)
        \/ \E h1, h \in Handles, v \in Vars, b \in BOOLEAN : Restrict(h1, v, b, h)
        \/ \E h \in Handles : Park(h)
        \/ \E h \in Handles : Release(h)
        \/ \E X \in SUBSET Garbage : Collect(X)
Spec == Init /\ [][Next]_vars
Bound == Cardinality(DOMAIN heap) <= MaxNodes
\* ---- properties (C16, C17)
Unique == \A m, n \in DOMAIN heap : heap[m] = heap[n] => m = n
Reduced == \A n \in DOMAIN heap : heap[n].lo # heap[n].hi
Ordered == \A n \in DOMAIN heap : \A c \in {heap[n].lo, heap[n].hi} : ~IsTerm(c) => Pos(heap[n].var) < Pos(heap[c].var)
Closed == \A n \in DOMAIN heap : \A c \in {heap[n].lo, heap[n].hi} : IsTerm(c) \/ c \in DOMAIN heap
IndexComplete == \A n \in DOMAIN heap : n \in flow[heap[n].lo] /\ n \in fhigh[heap[n].hi]
IndexSound == /\ \A c \in DOMAIN flow : \A p \in flow[c] : (p \in DOMAIN heap /\ heap[p].lo = c)
              /\ \A c \in DOMAIN fhigh : \A q \in fhigh[c] : (q \in DOMAIN heap /\ heap[q].hi = c)
Assignments == SUBSET Vars
RECURSIVE Eval(_, _)
Eval(n, asg) == IF IsTerm(n) THEN n = T ELSE Eval(IF heap[n].var \in asg THEN heap[n].hi ELSE heap[n].lo, asg)
Tt(n) == {asg \in Assignments : Eval(n, asg)}
AllH == [h \in DOMAIN handles \cup DOMAIN limbo |-> IF h \in DOMAIN handles THEN handles[h] ELSE limbo[h]]
\* C16: equal functions share one root, whatever the creation / drop / collection history was
Canonical == \A h1, h2 \in DOMAIN AllH : (Tt(AllH[h1]) = Tt(AllH[h2])) <=> (AllH[h1] = AllH[h2])
\* C17: every operation computes the right function (checked on the last action through the history)
BopTt(bop, A, B) == CASE bop = "and" -> A \cap B [] bop = "or" -> A \cup B [] bop = "xor" -> (A \cup B) \ (A \cap B)
OpCorrect ==
  hist = <<>> \/
  LET e == hist[Len(hist)] IN
  CASE e.op = "var" -> Tt(handles[e.h]) = {a \in Assignments : e.v \in a}
    [] e.op = "const" -> Tt(handles[e.h]) = IF e.b THEN Assignments ELSE {}
    [] e.op = "apply" /\ e.h1 \in DOMAIN handles /\ e.h2 \in DOMAIN handles ->
         LET A == Tt(handles[e.h1])  B == Tt(handles[e.h2]) IN
         Tt(handles[e.h]) = BopTt(e.bop, A, B)
    [] e.op = "not" /\ e.h1 \in DOMAIN handles -> Tt(handles[e.h]) = Assignments \ Tt(handles[e.h1])
    [] e.op = "restrict" /\ e.h1 \in DOMAIN handles ->
         Tt(handles[e.h]) = {a \in Assignments : ((IF e.b THEN a \cup {e.v} ELSE a \ {e.v}) \in Tt(handles[e.h1]))}
    [] OTHER -> TRUE
RECURSIVE Tree(_)
Tree(n) == IF IsTerm(n) THEN <<"t", n>> ELSE <<heap[n].var, Tree(heap[n].lo), Tree(heap[n].hi)>>
Trees == {Tree(n) : n \in DOMAIN heap}
\* state-space reduction: node ids abstracted to structure trees (as a bag, so duplicates stay visible)
CanonView == << [t \in Trees |-> Cardinality({n \in DOMAIN heap : Tree(n) = t})],
                UNION {{<<"l", Tree(c), Tree(p)>> : p \in flow[c]} : c \in DOMAIN flow},
                UNION {{<<"h", Tree(c), Tree(p)>> : p \in fhigh[c]} : c \in DOMAIN fhigh},
                [h \in DOMAIN handles |-> Tree(handles[h])], [h \in DOMAIN limbo |-> Tree(limbo[h])],
                IF hist = <<>> THEN <<>> ELSE hist[Len(hist)] >>
Emit == (Len(hist) = Depth) => PrintT(<<"BEHAVIOUR", ToJson(hist)>>)
=======================================================================
