-------------------------- MODULE KripkeLib --------------------------
(* Layer A: kripke.py as a state machine over a pool of caller-owned Kripke objects.     *)
(* A pooled value is [S, S0, R, L] (L : S -> set of atoms).  One action per public call: *)
(* the constructor with arbitrary arguments (non-total relations, initial states outside *)
(* S, labels for non-states, list-valued labels), clone, get_substructure, labels(s),    *)
(* next(s), states/transitions queries.  KripkeInv (total, fully labelled, S0 within S)  *)
(* is an invariant of the pool; NoSharing speaks about label-set identities and is       *)
(* checked on the recorded projections (TraceKripke).                                    *)
EXTENDS Kripke, Json
CONSTANTS Nodes, AP, MaxObjs, Depth,
          Mutators     \* TRUE: include the inherited mutators and label_add (spec growth; KripkeInv then fails, as in the code)
VARIABLES pool, hist, args
vars == <<pool, hist, args>>
Objs == 1..MaxObjs
Live == DOMAIN pool
FreeId == CHOOSE i \in Objs : i \notin Live /\ \A j \in Objs : j < i => j \in Live
Ends(E) == {e[1] : e \in E} \cup {e[2] : e \in E}
Put(p, id, G) == [x \in DOMAIN p \cup {id} |-> IF x = id THEN G ELSE p[x]]
SuccIn(R, s) == {e[2] : e \in {x \in R : x[1] = s}}

\* Kripke(S, S0, R, L): L is a partial function (a dict) from arbitrary keys to label sets
CtorOutcome(S, S0, R, L) ==
  LET V == S \cup Ends(R) IN
  IF \E s \in V : SuccIn(R, s) = {} THEN [exc |-> "RuntimeError"]
  ELSE [ret |-> [S |-> V, S0 |-> V \cap S0, R |-> R,
                 L |-> [s \in V |-> IF s \in DOMAIN L THEN L[s] ELSE {}]]]
KripkeInvOf(K) == /\ \A s \in K.S : SuccIn(K.R, s) # {}            \* total
                  /\ Ends(K.R) \subseteq K.S
                  /\ DOMAIN K.L = K.S                               \* every state has a label set
                  /\ K.S0 \subseteq K.S
\* get_substructure(V)
SubOutcome(K, V) ==
  LET S2 == V \cap K.S
      R2 == {e \in K.R : e[1] \in V /\ e[2] \in V}
  IN IF \E s \in S2 : SuccIn(R2, s) = {} THEN [exc |-> "RuntimeError"]
     ELSE [ret |-> [S |-> S2, S0 |-> V \cap K.S0, R |-> R2, L |-> [s \in S2 |-> IF s \in DOMAIN K.L THEN K.L[s] ELSE {}]]]
Outcome(K, c) ==
  CASE c.op = "clone"  -> CtorOutcome(K.S, K.S0, K.R, K.L)     \* clone() goes through the constructor: raises if K is no longer total
    [] c.op = "sub"    -> SubOutcome(K, c.X)
    [] c.op = "labels" -> IF c.v \notin K.S THEN [exc |-> "RuntimeError"]
                          ELSE IF c.v \in DOMAIN K.L THEN [ret |-> K.L[c.v]]
                          ELSE [exc |-> "KeyError"]          \* as coded: a state added through DiGraph.add_node/add_edge has no label entry
    [] c.op = "add_node" -> IF c.v \in K.S THEN [exc |-> "RuntimeError"] ELSE [ret |-> "none"]
    [] c.op = "add_edge" -> IF <<c.s, c.d>> \in K.R THEN [exc |-> "RuntimeError"] ELSE [ret |-> "none"]
    [] c.op = "label_add" -> IF c.v \notin K.S THEN [exc |-> "RuntimeError"] ELSE IF c.v \in DOMAIN K.L THEN [ret |-> "none"] ELSE [exc |-> "KeyError"]
    \* replace_labelling_function(L) returns the FORMER labelling function (the dict object itself)
    [] c.op = "relabel" -> [ret |-> K.L]
    [] c.op = "next"   -> IF c.v \in K.S THEN [ret |-> SuccIn(K.R, c.v)] ELSE [exc |-> "RuntimeError"]
    [] c.op = "states" -> [ret |-> K.S]
    [] c.op = "transitions" -> [ret |-> K.R]
    [] c.op = "alllabels" -> [ret |-> UNION {K.L[s] : s \in DOMAIN K.L}]
MakesObject(op) == op \in {"clone", "sub"}
\* ---- spec growth beyond the listed properties: Kripke INHERITS DiGraph's mutators, and labels(s) hands out
\* the internal set.  The model says what the code does (named deviations from the class invariant):
\*   add_node(v)    adds a state with no successor and no label entry            (breaks totality and labelling)
\*   add_edge(s,d)  adds the edge and any missing endpoint, again without label entries
\*   label_add      the caller adds an atom to the set returned by labels(v): the structure changes
Effect(K, c) ==
  CASE c.op = "add_node" /\ c.v \notin K.S -> [K EXCEPT !.S = @ \cup {c.v}]
    [] c.op = "add_edge" /\ <<c.s, c.d>> \notin K.R -> [K EXCEPT !.S = @ \cup {c.s, c.d}, !.R = @ \cup {<<c.s, c.d>>}]
    [] c.op = "label_add" /\ c.v \in K.S /\ c.v \in DOMAIN K.L -> [K EXCEPT !.L = [@ EXCEPT ![c.v] = @ \cup {c.a}]]
    \* replace_labelling_function(L): the caller's dict BECOMES the labelling function (missing states are added to it with
    \* an empty set; keys that are not states stay in it, and labels() - "all labels" - then reports their atoms too)
    [] c.op = "relabel" -> [K EXCEPT !.L = [s \in K.S \cup DOMAIN c.L |-> IF s \in DOMAIN c.L THEN c.L[s] ELSE {}]]
    [] OTHER -> K
IsMutator(op) == op \in {"add_node", "add_edge", "label_add", "relabel"}

Init == pool = <<>> /\ hist = <<>> /\ args = <<>>
\* constructor arguments are chosen component by component (keeps simulation cheap)
Pick == /\ Len(args) < 4 /\ Live # Objs
        /\ args' \in CASE Len(args) = 0 -> {<<S>> : S \in SUBSET Nodes}
                       [] Len(args) = 1 -> {Append(args, S0) : S0 \in SUBSET Nodes}
                       [] Len(args) = 2 -> {Append(args, R) : R \in SUBSET (Nodes \X Nodes)}
                       [] Len(args) = 3 -> {Append(args, L) : L \in UNION {[D -> SUBSET AP] : D \in SUBSET Nodes}}
        /\ UNCHANGED <<pool, hist>>
New == /\ Len(args) = 4
       /\ LET o == CtorOutcome(args[1], args[2], args[3], args[4]) IN
          /\ pool' = IF "ret" \in DOMAIN o THEN Put(pool, FreeId, o.ret) ELSE pool
          /\ hist' = Append(hist, [op |-> "new", S |-> args[1], S0 |-> args[2], R |-> args[3],
                                   Lkv |-> {<<s, args[4][s]>> : s \in DOMAIN args[4]},
                                   new |-> FreeId])
       /\ args' = <<>>
Call(g, c) == /\ g \in Live /\ args = <<>>
              /\ MakesObject(c.op) => Live # Objs
              /\ LET o == Outcome(pool[g], c) IN
                 /\ pool' = IF MakesObject(c.op) /\ "ret" \in DOMAIN o THEN Put(pool, FreeId, o.ret)
                            ELSE IF IsMutator(c.op) THEN Put(pool, g, Effect(pool[g], c)) ELSE pool
                 /\ hist' = Append(hist, (IF c.op = "relabel" THEN [op |-> "relabel", Lkv |-> {<<s, c.L[s]>> : s \in DOMAIN c.L}] ELSE c)
                                          @@ [g |-> g] @@ (IF MakesObject(c.op) THEN [new |-> FreeId] ELSE <<>>))
              /\ UNCHANGED args
Drop(g) == /\ g \in Live /\ args = <<>> /\ pool' = [x \in Live \ {g} |-> pool[x]]
           /\ hist' = Append(hist, [op |-> "drop", g |-> g]) /\ UNCHANGED args
MutCalls == IF Mutators THEN {[op |-> "add_node", v |-> v] : v \in Nodes} \cup {[op |-> "add_edge", s |-> a, d |-> b] : a \in Nodes, b \in Nodes}
                           \cup {[op |-> "label_add", v |-> v, a |-> a] : v \in Nodes, a \in AP}
                           \cup {[op |-> "relabel", L |-> L] : L \in UNION {[D -> SUBSET AP] : D \in SUBSET Nodes}}
            ELSE {}
Calls == MutCalls \cup {[op |-> "sub", X |-> X] : X \in SUBSET Nodes}
         \cup {[op |-> o, v |-> v] : o \in {"labels", "next"}, v \in Nodes}
         \cup {[op |-> o] : o \in {"clone", "states", "transitions", "alllabels"}}
Next == Pick \/ New \/ (\E g \in Objs, c \in Calls : Call(g, c)) \/ (\E g \in Objs : Drop(g))
Spec == Init /\ [][Next]_vars
\* C14: every structure that exists is total, fully labelled, with initial states among its states
KripkeInv == \A g \in Live : KripkeInvOf(pool[g])
\* no call changes an existing structure (all of kripke.py's public calls used here are queries)
Pure == [][(Len(hist') = Len(hist) + 1 /\ ~IsMutator(hist'[Len(hist')].op)) => \A g \in Live : g \in DOMAIN pool' => pool'[g] = pool[g]]_vars
Emit == (Len(hist) = Depth) => PrintT(<<"BEHAVIOUR", ToJson(hist)>>)
Bound == Len(hist) < Depth \/ (Len(hist) = Depth /\ args = <<>>)
=======================================================================
