CONSTANTS
  KPool <- KPoolC
  FPool <- FPoolC
  MaxRes = 6
  Depth = 14
SPECIFICATION Spec
INVARIANT Emit
CHECK_DEADLOCK FALSE
