CONSTANTS
  KPool <- KPoolC
  FPool <- FPoolC
  BadPool <- BadPoolC
  MaxRes = 6
  Depth = 14
SPECIFICATION Spec
INVARIANT Emit
CHECK_DEADLOCK FALSE
