CONSTANT N = 4
SPECIFICATION Spec
INVARIANT Exact
INVARIANT Partial
CHECK_DEADLOCK FALSE
