CONSTANTS
  Nodes = {0, 1}
  AP = {"p"}
  MaxObjs = 1
  Depth = 2
SPECIFICATION Spec
CONSTRAINT Bound
INVARIANT KripkeInv
PROPERTY Pure
CHECK_DEADLOCK FALSE
