CONSTANTS
  Nodes = {0}
  AP = {"p"}
  MaxObjs = 1
  Mutators = FALSE
  Depth = 1
SPECIFICATION TSpec
INVARIANT Done
POSTCONDITION TPost
CHECK_DEADLOCK FALSE
