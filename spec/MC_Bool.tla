---------------------------- MODULE MC_Bool ----------------------------
(* R2 for C17/C18: the reference itself.  For every Boolean function of <= NV variables   *)
(* (as a truth table) and every ordering: Robdd is reduced and ordered, denotes the        *)
(* function, its support is the essential variables, and two functions have the same      *)
(* Robdd iff they are equal (canonicity).                                                  *)
EXTENDS BoolExpr, SequencesExt
CONSTANT VarsC
VARIABLE c
Pairs == {p \in VarsC \X VarsC : p[1] # p[2]}
Orders == {SetToSeq(VarsC)} \cup {<<p[1], p[2]>> \o SetToSeq(VarsC \ {p[1], p[2]}) : p \in Pairs}
RECURSIVE EvalT(_, _), NodeVars(_), OrderedT(_, _), ReducedT(_)
EvalT(t, asg) == IF t[1] = "t" THEN t[2] = 1 ELSE EvalT(IF t[1] \in asg THEN t[3] ELSE t[2], asg)
NodeVars(t) == IF t[1] = "t" THEN {} ELSE {t[1]} \cup NodeVars(t[2]) \cup NodeVars(t[3])
PosIn(ord, v) == CHOOSE i \in 1..Len(ord) : ord[i] = v
OrderedT(t, ord) == t[1] = "t" \/ (/\ \A k \in {t[2], t[3]} : k[1] = "t" \/ PosIn(ord, t[1]) < PosIn(ord, k[1])
                                   /\ OrderedT(t[2], ord) /\ OrderedT(t[3], ord))
ReducedT(t) == t[1] = "t" \/ (t[2] # t[3] /\ ReducedT(t[2]) /\ ReducedT(t[3]))
Init == c = <<>>
Next == \/ c = <<>> /\ c' \in {<<ord>> : ord \in Orders}
        \/ Len(c) = 1 /\ c' \in {<<c[1], tt>> : tt \in SUBSET SUBSET VarsC}
Spec == Init /\ [][Next]_c
RobddOK == Len(c) = 2 =>
   LET ord == c[1]  tt == c[2]  r == Robdd(tt, ord) IN
   /\ {a \in SUBSET VarsC : EvalT(r, a)} = tt
   /\ OrderedT(r, ord) /\ ReducedT(r)
   /\ NodeVars(r) = Support(tt, ord)
Canon == Len(c) = 2 => \A tt2 \in {c[2] \cup {{}}, c[2] \ {{}}, (SUBSET VarsC) \ c[2]} :
            (Robdd(tt2, c[1]) = Robdd(c[2], c[1])) <=> (tt2 = c[2])
=========================================================================
