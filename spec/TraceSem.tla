--------------------------- MODULE TraceSem ---------------------------
(* Code -> spec: total-verdict validation of recorded model-checking calls.             *)
(* One ndjson line per public call of CTL/LTL/CTLS.modelcheck (no fairness):            *)
(*   {tid, logic, n, R, L, f, out: {ret:[..], isset:bool, foreign:int} | {exc:"Class"}, *)
(*    cert: B (optional)}                                                                *)
(* The trace spec consumes every line (l' = l+1), evaluates the Layer-A action's        *)
(* conformance predicate and records a verdict for every non-conforming event.           *)
EXTENDS Semantics, Json, IOUtils, TLCExt
TraceLog == ndJsonDeserialize(IOEnv.TRACE_FILE)
VARIABLES l, fails, uncert
ToSet(seq) == {seq[i] : i \in 1..Len(seq)}
MkK(e) == [n |-> e.n, R |-> {<<p[1], p[2]>> : p \in ToSet(e.R)},
           L |-> [s \in 0..(e.n-1) |-> ToSet(e.L[s+1])]]
Has(e, k) == k \in DOMAIN e
\* the modelcheck action of Layer A: outcome is a fresh set of exactly the satisfying states
Verdict(e) ==
  LET K == MkK(e)
      exp == SatStar(K, e.f)
  IN IF Has(e.out, "skipped") THEN [v |-> "ok"]        \* per-case time limit hit: counted by the harness, not judged
     ELSE IF e.logic = "CTL" /\ SatCTL(K, e.f) # exp THEN [v |-> "ORACLE"]
     ELSE IF Has(e.out, "exc") THEN [v |-> "violation:exception " \o e.out.exc, exp |-> exp]
     ELSE IF ~e.out.isset THEN [v |-> "violation:not-a-set", exp |-> exp]
     ELSE IF e.out.foreign # 0 THEN [v |-> "violation:foreign-elements", exp |-> exp]
     ELSE IF ToSet(e.out.ret) # exp THEN [v |-> "violation:result", exp |-> exp]
     ELSE [v |-> "ok"]
\* C02: every excluded state of an LTL answer is certified by a concrete lasso satisfying
\* "not g" under the transliterated documentation semantics; every included one has none
Cert(e) ==
  IF ~(Has(e, "cert") /\ e.f[1] = "A") \/ Has(e.out, "skipped") THEN [unc |-> {}, bad |-> {}]
  ELSE LET K == MkK(e)
           exp == SatStar(K, e.f)
           h == Elim(K, <<"not", e.f[2]>>)
       IN [unc |-> {s \in States(K) \ exp : ~ExistsLasso(K, s, h, e.cert)},
           bad |-> {s \in exp : ExistsLasso(K, s, h, e.cert)}]
Init == l = 1 /\ fails = <<>> /\ uncert = <<>>
Next == /\ l <= Len(TraceLog)
        /\ LET e == TraceLog[l]
               v == Verdict(e)
               c == Cert(e)
           IN /\ fails' = IF c.bad # {} THEN Append(fails, [tid |-> e.tid, v |-> "ORACLE:lasso"])
                          ELSE IF v.v = "ok" THEN fails
                          ELSE Append(fails, [tid |-> e.tid] @@ v)
              /\ uncert' = IF c.unc = {} THEN uncert ELSE Append(uncert, e.tid)
        /\ l' = l + 1
Spec == Init /\ [][Next]_<<l, fails, uncert>>
Done == (l = Len(TraceLog) + 1) =>
          JsonSerialize(IOEnv.OUT_FILE, [n |-> Len(TraceLog), fails |-> fails, uncert |-> uncert])
\* every line consumed: one state per line plus the initial state
Post == TLCGet("stats").diameter = Len(TraceLog) + 1
=======================================================================
