CONSTANTS
  Lenient = FALSE
  Mode = "CTLS"
SPECIFICATION Spec
INVARIANT InLogic
INVARIANT RoundTrip
INVARIANT CrossFeed
CHECK_DEADLOCK FALSE
