CONSTANTS
  ScopeN = 2
  LassoB = 3
SPECIFICATION Spec
INVARIANT RuleCTL
INVARIANT RulePath
CHECK_DEADLOCK FALSE
