--------------------------- MODULE Library ---------------------------
(* Layer A: the model-checking entry points as a state machine over caller-owned         *)
(* objects: a pool of Kripke structures, a pool of formulas, and the result sets handed  *)
(* back to the caller.  C07 (purity, functional dependence on the arguments) and C19     *)
(* (every query returns a fresh set of the structure's own states, owned by the caller)  *)
(* are action properties of this machine; their force is in conformance: every recorded  *)
(* call history of the real library, with the deep projection of every pooled object     *)
(* after every call, must be a behaviour of it (TraceLib).                               *)
EXTENDS Semantics, Json
CONSTANTS KPool,     \* sequence of Kripke values [n, R, L]
          FPool,     \* sequence of [logic |-> "CTL"|"LTL"|"CTLS", f |-> formula]
          BadPool,   \* sequence of [logic, f]: CTL* objects that are NOT state formulas of the called logic
          MaxRes, Depth
VARIABLES ks,        \* the caller's Kripke structures (values); the caller may edit them between calls
          res,       \* result id -> set of states (may contain the foreign marker after a caller mutation)
          fairmemo,  \* <<k, j, fair>> -> answer adopted for calls with fairness constraints (see FairAnswer)
          hist
vars == <<ks, res, fairmemo, hist>>
Foreign == 999
ResIds == 1..MaxRes
FreeRes == CHOOSE i \in ResIds : i \notin DOMAIN res /\ \A j \in ResIds : j < i => j \in DOMAIN res
Put(p, id, v) == [x \in DOMAIN p \cup {id} |-> IF x = id THEN v ELSE p[x]]
\* the answer of <logic>.modelcheck(K, f) without fairness constraints
AnswerOf(K, f) == SatStar(K, f)
Answer(k, j) == AnswerOf(ks[k], FPool[j].f)
Fairs == {"none", "all", "empty", "some"}
\* With fairness constraints the VALUE is C15's business; this machine only requires the call
\* to be a function of its arguments: the first answer for <<k, j, fair>> is adopted.
FairKeys == DOMAIN fairmemo
Init == ks = KPool /\ res = <<>> /\ fairmemo = <<>> /\ hist = <<>>
Call(k, j, mode, fair) ==
  /\ DOMAIN res # ResIds
  /\ \E a \in (IF fair = "none" THEN {Answer(k, j)}
               ELSE IF <<k, j, fair>> \in FairKeys THEN {fairmemo[<<k, j, fair>>]}
               ELSE SUBSET States(ks[k])) :
       /\ res' = Put(res, FreeRes, a)
       /\ fairmemo' = IF fair = "none" THEN fairmemo ELSE Put(fairmemo, <<k, j, fair>>, a)
  /\ hist' = Append(hist, [op |-> "call", k |-> k, j |-> j, mode |-> mode, fair |-> fair, r |-> FreeRes])
  /\ UNCHANGED ks
\* a call with a formula outside the logic is rejected with TypeError and has no effect whatsoever
\* (C07 on the error path: the caller's objects are intact after a rejected call, with or without F)
BadCall(k, b, fair) ==
  /\ hist' = Append(hist, [op |-> "badcall", k |-> k, b |-> b, fair |-> fair])
  /\ UNCHANGED <<ks, res, fairmemo>>
\* the caller edits one of its own structures between calls (labels(s).add / .discard, add_edge between existing
\* states): later answers must follow the edited structure - nothing may be remembered about the old one
EditLabel(k, st, a, add) ==
  /\ ks' = [ks EXCEPT ![k].L[st] = IF add THEN @ \cup {a} ELSE @ \ {a}]
  /\ fairmemo' = [key \in {x \in DOMAIN fairmemo : x[1] # k} |-> fairmemo[key]]
  /\ hist' = Append(hist, [op |-> "editlabel", k |-> k, s |-> st, a |-> a, add |-> add])
  /\ UNCHANGED res
EditEdge(k, st, d) ==
  /\ <<st, d>> \notin ks[k].R
  /\ ks' = [ks EXCEPT ![k].R = @ \cup {<<st, d>>}]
  /\ fairmemo' = [key \in {x \in DOMAIN fairmemo : x[1] # k} |-> fairmemo[key]]
  /\ hist' = Append(hist, [op |-> "editedge", k |-> k, s |-> st, d |-> d])
  /\ UNCHANGED res
\* the caller does what it likes with a returned set
Mutate(r, kind) ==
  /\ r \in DOMAIN res
  /\ res' = [res EXCEPT ![r] = CASE kind = "clear" -> {}
                                 [] kind = "add" -> @ \cup {Foreign}
                                 [] kind = "discard" -> IF @ = {} THEN {} ELSE @ \ {CHOOSE x \in @ : \A y \in @ : x <= y}
                                 \* size-preserving edit: one element out, a foreign one in
                                 [] kind = "swap" -> IF @ = {} THEN {} ELSE (@ \ {CHOOSE x \in @ : \A y \in @ : x <= y}) \cup {Foreign}]
  /\ hist' = Append(hist, [op |-> "mutate", r |-> r, kind |-> kind])
  /\ UNCHANGED <<ks, fairmemo>>
Drop(r) == /\ r \in DOMAIN res /\ res' = [x \in DOMAIN res \ {r} |-> res[x]]
           /\ hist' = Append(hist, [op |-> "drop", r |-> r]) /\ UNCHANGED <<ks, fairmemo>>
Next == \/ \E k \in 1..Len(KPool), j \in 1..Len(FPool), mode \in {"obj", "text"}, fair \in Fairs : Call(k, j, mode, fair)
        \/ \E k \in 1..Len(KPool), b \in 1..Len(BadPool), fair \in Fairs : BadCall(k, b, fair)
        \/ \E k \in 1..Len(KPool), st \in 0..2, a \in {"p", "q"}, add \in BOOLEAN : st \in States(ks[k]) /\ EditLabel(k, st, a, add)
        \/ \E k \in 1..Len(KPool), st \in 0..2, d \in 0..2 : st \in States(ks[k]) /\ d \in States(ks[k]) /\ EditEdge(k, st, d)
        \/ \E r \in ResIds, kind \in {"clear", "add", "discard", "swap"} : Mutate(r, kind)
        \/ \E r \in ResIds : Drop(r)
Spec == Init /\ [][Next]_vars
Last == hist'[Len(hist')]
IsStep == Len(hist') = Len(hist) + 1
\* C19: a call creates exactly one new result, a subset of the structure's states, and touches no other result
FreshResult == [][(IsStep /\ Last.op = "call") =>
                   /\ Last.r \notin DOMAIN res
                   /\ res'[Last.r] \subseteq States(ks[Last.k])
                   /\ \A r \in DOMAIN res : res'[r] = res[r]]_vars
\* C19: mutating a result changes that result only
ResultOwned == [][(IsStep /\ Last.op = "mutate") => \A r \in DOMAIN res \ {Last.r} : res'[r] = res[r]]_vars
\* C07: without fairness constraints the answer depends on the arguments only - whatever happened before
AnswerStable == [][(IsStep /\ Last.op = "call" /\ Last.fair = "none") => res'[Last.r] = Answer(Last.k, Last.j)]_vars
\* only the caller's own edits change a structure
OnlyEditsChangeK == [][(IsStep /\ Last.op \notin {"editlabel", "editedge"}) => ks' = ks]_vars
Emit == (Len(hist) = Depth) => PrintT(<<"BEHAVIOUR", ToJson(hist)>>)
Bound == Len(hist) <= Depth
=======================================================================
