CONSTANTS
  Nodes = {0, 1, 2}
  AP = {"p", "q"}
  MaxObjs = 3
  Depth = 8
SPECIFICATION Spec
INVARIANT Emit
INVARIANT KripkeInv
CHECK_DEADLOCK FALSE
