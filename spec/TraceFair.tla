-------------------------- MODULE TraceFair --------------------------
(* Code -> spec: total-verdict validation of calls with fairness constraints (C15).      *)
(*  {tid, op:"fs", n,R,L, F:[[..],..], out:{ret..}|{exc}, kb, ka}        get_fair_states *)
(*  {tid, op:"mc", logic, n,R,L, F, f, out, kb, ka}                modelcheck(K, f, F=F) *)
(* kb / ka are the deep projections of the caller's K before and after the call.         *)
(* Verdict: ok | known:<KF id> (wrong, but exactly what a LISTED deviation produces)     *)
(*          | violation:<clause>.                                                         *)
EXTENDS AsCoded, Json, IOUtils, TLCExt
TraceLog == ndJsonDeserialize(IOEnv.TRACE_FILE)
VARIABLES l, fails
ToSet(seq) == {seq[i] : i \in 1..Len(seq)}
MkK(e) == [n |-> e.n, R |-> {<<p[1], p[2]>> : p \in ToSet(e.R)},
           L |-> [s \in 0..(e.n-1) |-> ToSet(e.L[s+1])]]
Has(e, k) == k \in DOMAIN e
Verdict(e) ==
  LET K == MkK(e)
      Fc == {ToSet(P) : P \in ToSet(e.F)}
      shape == Has(e.out, "ret") /\ e.out.isset /\ e.out.foreign = 0
      got == IF shape THEN ToSet(e.out.ret) ELSE {}
  IN IF Has(e.out, "skipped") THEN [v |-> "ok"]
     ELSE IF Has(e.out, "exc") THEN [v |-> "violation:exception " \o e.out.exc]
     ELSE IF ~shape THEN [v |-> "violation:shape"]
     ELSE IF e.kb # e.ka THEN [v |-> "violation:K-modified"]
     ELSE IF e.op = "fs" THEN
          LET doc == FairStates(K, Fc) IN
          IF doc # FairStatesSCC(K, Fc) THEN [v |-> "ORACLE:fairstates"]
          ELSE IF got = doc THEN [v |-> "ok"]
          ELSE IF got \in PossibleFS_KF1(K, Fc) THEN [v |-> "known:KF-1", exp |-> doc]
          ELSE [v |-> "violation:get_fair_states", exp |-> doc]
     ELSE LET doc == SatFair(K, e.f, Fc) IN
          IF got = doc THEN [v |-> "ok"]
          ELSE IF got = AsCodedNoKF1(e.logic, K, e.f, Fc) THEN
               [v |-> IF e.logic = "CTL" THEN "known:KF-2" ELSE "known:KF-3", exp |-> doc]
          ELSE IF got \in AsCoded(e.logic, K, e.f, Fc) THEN [v |-> "known:KF-1", exp |-> doc]
          ELSE [v |-> "violation:fair-result", exp |-> doc]
Init == l = 1 /\ fails = <<>>
Next == /\ l <= Len(TraceLog)
        /\ LET e == TraceLog[l]  v == Verdict(e) IN
           fails' = IF v.v = "ok" THEN fails ELSE Append(fails, [tid |-> e.tid] @@ v)
        /\ l' = l + 1
Spec == Init /\ [][Next]_<<l, fails>>
Done == (l = Len(TraceLog) + 1) => JsonSerialize(IOEnv.OUT_FILE, [n |-> Len(TraceLog), fails |-> fails])
Post == TLCGet("stats").diameter = Len(TraceLog) + 1
=======================================================================
