CONSTANT N = 12
INIT TInit
NEXT TNext
INVARIANT Done2
POSTCONDITION TPost
CHECK_DEADLOCK FALSE
