---- MODULE SCCAlgo ----
\* Step-level model of graph.py compute_SCCs (iterative Nuutila variant), with the
\* iteration orders (root order, successor order) left nondeterministic.
EXTENDS Naturals, Sequences, FiniteSets, TLC
CONSTANT N
Nodes == 0..(N-1)
VARIABLES E,        \* the input graph (chosen in Init)
          disc, low, inScc, sccStack, dfs, time, roots, emitted, pc
vars == <<E, disc, low, inScc, sccStack, dfs, time, roots, emitted, pc>>
Succ(v) == {w \in Nodes : <<v,w>> \in E}
Undef == N + 100
Init == /\ E \in SUBSET (Nodes \X Nodes)
        /\ disc = [v \in Nodes |-> Undef] /\ low = [v \in Nodes |-> Undef]
        /\ inScc = {} /\ sccStack = <<>> /\ dfs = <<>> /\ time = 0
        /\ roots = Nodes /\ emitted = <<>> /\ pc = "outer"
\* for s in G.nodes(): if s not in disc: ...
StartRoot(s) == /\ pc = "outer" /\ s \in roots
                /\ roots' = roots \ {s}
                /\ IF disc[s] # Undef THEN UNCHANGED <<disc, low, dfs, pc>>
                   ELSE /\ disc' = [disc EXCEPT ![s] = time]
                        /\ low' = [low EXCEPT ![s] = time]
                        /\ dfs' = <<[v |-> s, todo |-> Succ(s)]>>
                        /\ pc' = "inner"
                /\ UNCHANGED <<E, inScc, sccStack, time, emitted>>
\* w = next(stack[-1][1])
Advance(w) == /\ pc = "inner" /\ dfs # <<>>
              /\ LET top == dfs[Len(dfs)] IN
                 /\ w \in top.todo
                 /\ LET rest == [dfs EXCEPT ![Len(dfs)].todo = top.todo \ {w}] IN
                    IF disc[w] = Undef
                    THEN /\ time' = time + 1
                         /\ disc' = [disc EXCEPT ![w] = time + 1]
                         /\ low' = [low EXCEPT ![w] = time + 1]
                         /\ dfs' = Append(rest, [v |-> w, todo |-> Succ(w)])
                    ELSE /\ dfs' = rest /\ UNCHANGED <<time, disc, low>>
              /\ UNCHANGED <<E, inScc, sccStack, roots, emitted, pc>>
Min(a,b) == IF a < b THEN a ELSE b
\* fold of the lowlink loop over successors; order-insensitive (min), so a set fold
RECURSIVE LowFold(_,_,_)
LowFold(v, ws, acc) == IF ws = {} THEN acc ELSE
   LET w == CHOOSE x \in ws : TRUE IN
   LowFold(v, ws \ {w}, IF w \in inScc THEN acc
                         ELSE IF disc[w] > disc[v] THEN Min(acc, low[w]) ELSE Min(acc, disc[w]))
RECURSIVE PopWhile(_,_,_)
\* pops sccStack while disc[top] > disc[v]; returns <<newStack, poppedSeq>>
PopWhile(st, v, acc) == IF st # <<>> /\ disc[st[Len(st)]] > disc[v]
                        THEN PopWhile(SubSeq(st,1,Len(st)-1), v, Append(acc, st[Len(st)]))
                        ELSE <<st, acc>>
Backtrack == /\ pc = "inner" /\ dfs # <<>>
             /\ dfs[Len(dfs)].todo = {}
             /\ LET v == dfs[Len(dfs)].v
                    lv == LowFold(v, Succ(v), low[v]) IN
                /\ low' = [low EXCEPT ![v] = lv]
                /\ dfs' = SubSeq(dfs, 1, Len(dfs)-1)
                /\ IF lv = disc[v]
                   THEN LET r == PopWhile(sccStack, v, <<v>>) IN
                        /\ sccStack' = r[1]
                        /\ emitted' = Append(emitted, r[2])
                        /\ inScc' = inScc \cup {r[2][i] : i \in 1..Len(r[2])}
                   ELSE /\ sccStack' = Append(sccStack, v)
                        /\ UNCHANGED <<emitted, inScc>>
                /\ pc' = IF Len(dfs) = 1 THEN "outer" ELSE "inner"
             /\ UNCHANGED <<E, disc, time, roots>>
Next == (\E s \in Nodes : StartRoot(s)) \/ (\E w \in Nodes : Advance(w)) \/ Backtrack
Spec == Init /\ [][Next]_vars
FairSpec == Spec /\ WF_vars(Next)
Done == pc = "outer" /\ roots = {}
\* ---- declarative reference
RECURSIVE ReachFrom(_,_)
ReachFrom(X, dummy) == LET X2 == X \cup {w \in Nodes : \E v \in X : <<v,w>> \in E} IN IF X2 = X THEN X ELSE ReachFrom(X2, dummy)
Mutual(a,b) == b \in ReachFrom({a},0) /\ a \in ReachFrom({b},0)
SCCsRef == {{b \in Nodes : Mutual(a,b)} : a \in Nodes}
SeqSet(s) == {s[i] : i \in 1..Len(s)}
Exact == Done => /\ {SeqSet(emitted[i]) : i \in 1..Len(emitted)} = SCCsRef
                 /\ \A i \in 1..Len(emitted) : Cardinality(SeqSet(emitted[i])) = Len(emitted[i])
                 /\ \A i, j \in 1..Len(emitted) : i # j => SeqSet(emitted[i]) \cap SeqSet(emitted[j]) = {}
\* emitted components are always genuine SCCs, even before termination
Partial == \A i \in 1..Len(emitted) : SeqSet(emitted[i]) \in SCCsRef
\* the routine terminates under every schedule (liveness, weak fairness of the loop body)
Terminates == <>Done
====
