CONSTANTS
  Nodes = {0, 1}
  MaxObjs = 2
  Depth = 3
SPECIFICATION Spec
CONSTRAINT Bound
INVARIANT WellFormed
INVARIANT Laws
PROPERTY PureQueries
PROPERTY LocalMutation
CHECK_DEADLOCK FALSE
