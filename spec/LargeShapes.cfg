CONSTANT MaxN = 6
SPECIFICATION Spec
INVARIANT GraphOK
INVARIANT CTLOK
INVARIANT StarOK
CHECK_DEADLOCK FALSE
