CONSTANTS
  MaxN = 2
  Mode = "quick"
SPECIFICATION Spec
INVARIANT ElimExact
INVARIANT CallerIntact
INVARIANT FreshIsFresh
CHECK_DEADLOCK FALSE
