CONSTANTS
  KPool <- NoPool
  FPool <- NoPool
  BadPool <- NoPool
  MaxRes = 1
  Depth = 1
SPECIFICATION TSpec
INVARIANT Done
POSTCONDITION TPost
CHECK_DEADLOCK FALSE
