--------------------------- MODULE Digraph ---------------------------
(* Layer A: the DiGraph part of the library as a state machine over a pool of caller-    *)
(* owned graph objects.  One action per public call; the outcome (return value or        *)
(* exception class, effect on the pool) is defined declaratively with the operators of   *)
(* module Kripke (GReach, GReverse, GInduced, GSCCs).  Used three ways:                  *)
(*   - checked by TLC itself (PureQueries, FreshResults, WellFormed);                    *)
(*   - `tlc -simulate` generates behaviours (hist) that the harness replays into the     *)
(*     real DiGraph objects (spec -> code);                                              *)
(*   - TraceGraph reuses Apply/Outcome to judge recorded histories (code -> spec).       *)
EXTENDS Kripke, Json
CONSTANTS Nodes, MaxObjs, Depth
VARIABLES pool,      \* object id -> [V, E]
          hist       \* sequence of call records (the behaviour handed to the harness)
vars == <<pool, hist>>
Objs == 1..MaxObjs
Live == DOMAIN pool
FreeId == CHOOSE i \in Objs : i \notin Live /\ \A j \in Objs : j < i => j \in Live
Ends(E) == {e[1] : e \in E} \cup {e[2] : e \in E}
\* DiGraph(V, E): every endpoint of an edge becomes a node
MkGraph(V, E) == [V |-> V \cup Ends(E), E |-> E]

\* ---- declarative outcome of each call on a graph value G
\* a call record c has c.op and its arguments; Outcome gives [ret |-> v] or [exc |-> class]
Outcome(G, c) ==
  CASE c.op = "add_node" -> IF c.v \in G.V THEN [exc |-> "RuntimeError"] ELSE [ret |-> "none"]
    [] c.op = "add_edge" -> IF <<c.s, c.d>> \in G.E THEN [exc |-> "RuntimeError"] ELSE [ret |-> "none"]
    [] c.op = "reach"    -> IF c.X \subseteq G.V THEN [ret |-> GReach(G, c.X)] ELSE [exc |-> "RuntimeError"]
    [] c.op = "next"     -> IF c.v \in G.V THEN [ret |-> GSucc(G, {c.v})] ELSE [exc |-> "RuntimeError"]
    [] c.op = "nodes"    -> [ret |-> G.V]
    [] c.op = "edges"    -> [ret |-> G.E]
    [] c.op = "sources"  -> [ret |-> {e[1] : e \in G.E}]
    [] c.op = "sccs"     -> [ret |-> GSCCs(G)]
    \* compute_SCCs is a generator: the caller may take only the first k components and abandon it (any(...), next(...),
    \* a break).  The reference value is the full partition; TraceGraph requires k distinct classes of it.
    [] c.op = "sccs_some" -> [ret |-> GSCCs(G)]
    [] c.op = "rev"      -> [ret |-> GReverse(G)]
    [] c.op = "sub"      -> [ret |-> GInduced(G, c.X)]
    [] c.op = "clone"    -> [ret |-> G]
\* effect of the call on the receiver
Effect(G, c) ==
  CASE c.op = "add_node" /\ c.v \notin G.V -> [V |-> G.V \cup {c.v}, E |-> G.E]
    [] c.op = "add_edge" /\ <<c.s, c.d>> \notin G.E -> [V |-> G.V \cup {c.s, c.d}, E |-> G.E \cup {<<c.s, c.d>>}]
    [] OTHER -> G
MakesObject(op) == op \in {"rev", "sub", "clone"}
IsQuery(op) == op \in {"reach", "next", "nodes", "edges", "sources", "sccs", "sccs_some", "rev", "sub", "clone"}

\* ---- the state machine
Init == pool = <<>> /\ hist = <<>>
Put(p, id, G) == [x \in DOMAIN p \cup {id} |-> IF x = id THEN G ELSE p[x]]
New(V, E) == /\ Live # Objs
             /\ pool' = Put(pool, FreeId, MkGraph(V, E))
             /\ hist' = Append(hist, [op |-> "new", V |-> V, E |-> E, new |-> FreeId])
Call(g, c) == /\ g \in Live
              /\ MakesObject(c.op) => Live # Objs
              /\ LET G == pool[g]
                     o == Outcome(G, c)
                     p1 == Put(pool, g, Effect(G, c))
                 IN /\ pool' = IF MakesObject(c.op) THEN Put(p1, FreeId, o.ret) ELSE p1
                    /\ hist' = Append(hist, c @@ [g |-> g] @@ (IF MakesObject(c.op) THEN [new |-> FreeId] ELSE <<>>))
Drop(g) == /\ g \in Live /\ pool' = [x \in Live \ {g} |-> pool[x]]
           /\ hist' = Append(hist, [op |-> "drop", g |-> g])
Calls == {[op |-> "add_node", v |-> v] : v \in Nodes}
         \cup {[op |-> "add_edge", s |-> s, d |-> d] : s \in Nodes, d \in Nodes}
         \cup {[op |-> "reach", X |-> X] : X \in SUBSET Nodes}
         \cup {[op |-> "next", v |-> v] : v \in Nodes}
         \cup {[op |-> o] : o \in {"nodes", "edges", "sources", "sccs", "rev", "clone"}}
         \cup {[op |-> "sub", X |-> X] : X \in SUBSET Nodes}
         \cup {[op |-> "sccs_some", k |-> k] : k \in 0..2}
Next == \/ \E V \in SUBSET Nodes, E \in SUBSET (Nodes \X Nodes) : New(V, E)
        \/ \E g \in Objs, c \in Calls : Call(g, c)
        \/ \E g \in Objs : Drop(g)
Spec == Init /\ [][Next]_vars
\* ---- properties of the contract itself
WellFormed == \A g \in Live : Ends(pool[g].E) \subseteq pool[g].V
LastOp == hist[Len(hist)].op
\* C13: queries never change any pooled graph
PureQueries == [][(Len(hist') = Len(hist) + 1 /\ IsQuery(hist'[Len(hist')].op)) =>
                    \A g \in Live : pool'[g] = pool[g]]_vars
\* mutators change only their receiver
LocalMutation == [][(Len(hist') = Len(hist) + 1 /\ hist'[Len(hist')].op \in {"add_node", "add_edge"}) =>
                    \A g \in Live \ {hist'[Len(hist')].g} : pool'[g] = pool[g]]_vars
\* reversing twice gives back the graph; the subgraph is induced; SCCs partition the nodes
Laws == \A g \in Live : LET G == pool[g] IN
          /\ GReverse(GReverse(G)) = G
          /\ \A X \in SUBSET Nodes : GInduced(G, X).V = G.V \cap X
          /\ UNION GSCCs(G) = G.V
          /\ \A C1 \in GSCCs(G), C2 \in GSCCs(G) : C1 = C2 \/ C1 \cap C2 = {}
\* behaviours for the harness: one JSON line per behaviour of length Depth
Emit == (Len(hist) = Depth) => PrintT(<<"BEHAVIOUR", ToJson(hist)>>)
Bound == Len(hist) <= Depth
=======================================================================
