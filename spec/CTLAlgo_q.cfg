CONSTANTS
  MaxN = 2
  Family2 <- Fam2
SPECIFICATION Spec
INVARIANT MemoExact
PROPERTY Terminates
CHECK_DEADLOCK FALSE
