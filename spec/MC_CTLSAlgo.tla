--------------------------- MODULE MC_CTLSAlgo ---------------------------
(* Layer B for C03: the CTL* procedure of CTLS/model_checking.py - eliminate innermost     *)
(* quantified subformulas first, label a private clone of K with a FRESH atom "[f]" on the  *)
(* states that satisfy f, replace f by that atom, continue - transcribed in AsCoded!Remove  *)
(* (without fairness label: fa = "none").  Its two back ends are modelled separately and    *)
(* exhaustively (CTLAlgo, LTLAlgo), so here they are the semantics itself and TLC checks    *)
(* the elimination loop: for every structure of the scope and every formula of the family   *)
(*   ElimExact     the answer of the loop is the satisfaction set (substitution lemma,      *)
(*                 left-to-right threading of the labelled clone, repeated subformulas)     *)
(*   CallerIntact  only labels of the form "[..]" are ever added (the caller's K is a clone)*)
(*   FreshIsFresh  a generated name never equals an atom of the remaining formula.          *)
(* FreshIsFresh is EXPECTED TO FAIL when Mode = "capture": the code avoids the labels of K  *)
(* but not the atoms of the formula (observation KF-4 of DESIGN Part II); TLC's             *)
(* counterexample is the witness.                                                           *)
EXTENDS AsCoded
CONSTANTS MaxN, Mode
VARIABLE c
P == <<"ap", "p">>  Q == <<"ap", "q">>
M0 == {P, Q}
Un(S) == {<<o, f>> : o \in {"not", "X", "F", "G"}, f \in S}
Bi(S) == {<<o, f, h>> : o \in {"or", "and", "U", "R"}, f \in S, h \in S}
Q1 == {<<q, g>> : q \in {"A", "E"}, g \in Un(M0) \cup {<<"U", P, Q>>, <<"and", <<"F", P>>, <<"G", Q>>>>}}
\* nesting 2 and repeated quantified subformulas
Nest == {<<q, <<o, f>>>> : q \in {"A", "E"}, o \in {"X", "F", "G"}, f \in Q1}
        \cup {<<q, <<o, f, h>>>> : q \in {"A", "E"}, o \in {"U", "and"}, f \in Q1, h \in {P} \cup {x \in Q1 : x[2][1] = "X"}}
        \cup {<<"and", f, <<"not", f>>>> : f \in Q1} \cup {<<"or", f, h>> : f \in Q1, h \in {x \in Q1 : x[1] = "E" /\ x[2][1] = "G"}}
EXp == <<"E", <<"X", P>>>>
FreshOf(f) == "[" \o ToString(f) \o "]"
\* formulas that use, as an ordinary atom, exactly the name the loop will generate for E X p
Capture == {<<"and", EXp, <<"not", <<"ap", FreshOf(EXp)>>>>>>, <<"A", <<"G", <<"or", EXp, <<"ap", FreshOf(EXp)>>>>>>>>}
NestQ == {x \in Nest : x[1] = "E" \/ x[1] \in {"and", "or"}}
Fam == IF Mode = "capture" THEN Capture ELSE IF Mode = "quick" THEN Q1 \cup {x \in NestQ : x[1] # "E" \/ x[2][1] \in {"X", "U"}} ELSE Q1 \cup Nest
Ks == KripkesUpTo(MaxN, {"p", "q"})
Init == c = <<>>
Next == \/ c = <<>> /\ c' \in {<<k>> : k \in Ks}
        \/ Len(c) = 1 /\ c' \in {<<c[1], f>> : f \in Fam}
Spec == Init /\ [][Next]_c
Full == Len(c) = 2
NoFair == <<"ap", "none">>
\* the loop without fairness: quantified subformulas are decided by the (exact) back ends
RECURSIVE RemoveP(_, _), RemoveArgsP(_, _, _)
RemoveP(Kc, f) ==
   IF IsLeaf(f) THEN [k |-> Kc, f |-> f, names |-> {}]
   ELSE IF f[1] \in {"A", "E"} THEN
        LET r == RemoveP(Kc, f[2])
            sts == SatStar(r.k, <<f[1], r.f>>)
            name == FreshOf(f)
        IN [k |-> Label(r.k, sts, name), f |-> <<"ap", name>>, names |-> r.names \cup {name}]
   ELSE LET r == RemoveArgsP(Kc, f, 2) IN [k |-> r.k, f |-> <<f[1]>> \o r.fs, names |-> r.names]
RemoveArgsP(Kc, f, i) ==
   IF i > Len(f) THEN [k |-> Kc, fs |-> <<>>, names |-> {}]
   ELSE LET r1 == RemoveP(Kc, f[i])
            r2 == RemoveArgsP(r1.k, f, i + 1)
        IN [k |-> r2.k, fs |-> <<r1.f>> \o r2.fs, names |-> r1.names \cup r2.names]
Run == RemoveP(c[1], c[2])
ElimExact == Full => SatStar(Run.k, Run.f) = SatStar(c[1], c[2])
CallerIntact == Full => \A s \in States(c[1]) : c[1].L[s] \subseteq Run.k.L[s] /\ (Run.k.L[s] \ c[1].L[s]) \subseteq Run.names
FreshIsFresh == Full => Run.names \cap Atoms(c[2]) = {}
============================================================================
