--------------------------- MODULE TraceLib ---------------------------
(* Code -> spec: total-verdict validation of recorded modelcheck call histories (C07,    *)
(* C19) against module Library.  Lines of one trace:                                     *)
(*  {tid, trace, i:0, op:"init", ks:[{n,R,L}..], fs:[{logic,f}..], proj:{ks,fs,res}}     *)
(*  {tid, trace, i, op:"call", k, j, mode, fair, r, out:{ret,isset,foreign}|{exc}, proj}  *)
(*  {tid, trace, i, op:"mutate", r, kind, proj}     {.. op:"drop", r, proj}               *)
(* proj is the deep projection, after the call, of every pooled Kripke object (states,   *)
(* initial states, transitions, every label set), every formula object (tree and printed *)
(* form) and every result set the caller holds.                                          *)
EXTENDS Library, IOUtils, TLCExt
TraceLog == ndJsonDeserialize(IOEnv.TRACE_FILE)
NoPool == <<>>
VARIABLES l, fails, st, broken
ToSet(seq) == {seq[i] : i \in 1..Len(seq)}
Has(e, k) == k \in DOMAIN e
MkK(j) == [n |-> j.n, R |-> {<<p[1], p[2]>> : p \in ToSet(j.R)}, L |-> [s \in 0..(j.n-1) |-> ToSet(j.L[s+1])]]
ResOf(e) == [r \in {x \in 1..40 : ToString(x) \in DOMAIN e.proj.res} |-> ToSet(e.proj.res[ToString(r)])]
Empty == [pk |-> <<>>, pf |-> <<>>, res |-> <<>>, memo |-> <<>>, p0 |-> <<>>, kb |-> <<>>]
\* projection of a Kripke object normalised for comparison (label lists as sets, transitions as a set)
NormK(j) == [S |-> j.S, S0 |-> j.S0, R |-> {<<p[1], p[2]>> : p \in ToSet(j.R)}, L |-> [i \in 1..Len(j.L) |-> ToSet(j.L[i])], attrs |-> j.attrs]
Quote(a) == "'" \o a \o "'"        \* the harness projects labels with repr(): 'p' 
\* clauses about the caller's objects, common to all ops
ObjectsIntact(e, s) ==
  IF [i \in 1..Len(e.proj.ks) |-> NormK(e.proj.ks[i])] # s.kb THEN "violation:kripke-modified"
  ELSE IF e.proj.fs # s.p0.fs THEN "violation:formula-modified"
  ELSE "ok"
Judge(e, s) ==
  IF e.op = "init" THEN [v |-> "ok", s |-> [pk |-> [i \in 1..Len(e.ks) |-> MkK(e.ks[i])], pf |-> e.fs, res |-> <<>>, memo |-> <<>>, p0 |-> e.proj,
                                            kb |-> [i \in 1..Len(e.proj.ks) |-> NormK(e.proj.ks[i])]]]
  ELSE IF e.op \in {"editlabel", "editedge"} THEN
    \* the caller's own edit: the structure (spec value and expected projection) changes exactly as requested
    LET K == s.pk[e.k]
        K2 == IF e.op = "editlabel" THEN [K EXCEPT !.L[e.s] = IF e.add THEN @ \cup {e.a} ELSE @ \ {e.a}]
              ELSE [K EXCEPT !.R = @ \cup {<<e.s, e.d>>}]
        b == s.kb[e.k]
        b2 == IF e.op = "editlabel" THEN [b EXCEPT !.L[e.s + 1] = IF e.add THEN @ \cup {Quote(e.a)} ELSE @ \ {Quote(e.a)}]
              ELSE [b EXCEPT !.R = @ \cup {<<e.s, e.d>>}]
        \* "noop": the library offered the caller no way to make this edit (e.g. label sets are handed out as immutable copies)
        s2 == IF Has(e, "noop") THEN s
              ELSE [s EXCEPT !.pk[e.k] = K2, !.kb[e.k] = b2, !.memo = [key \in {x \in DOMAIN s.memo : x[1] # e.k} |-> s.memo[key]]]
        v == IF Has(e, "err") THEN "MACHINERY:edit failed " \o e.err
             ELSE IF ObjectsIntact(e, s2) # "ok" THEN "MACHINERY:edit not reflected in the projection"
             ELSE IF ResOf(e) # s.res THEN "violation:results-changed"
             ELSE "ok"
    IN [v |-> v, s |-> s2]
  ELSE IF e.op = "call" THEN
    LET K == s.pk[e.k]
        f == s.pf[e.j].f
        key == <<e.k, e.j, e.fair>>
        okshape == Has(e.out, "ret") /\ e.out.isset /\ e.out.foreign = 0
        got == IF okshape THEN ToSet(e.out.ret) ELSE {}
        exp == IF e.fair = "none" THEN AnswerOf(K, f) ELSE IF key \in DOMAIN s.memo THEN s.memo[key] ELSE got
        res2 == Put(s.res, e.r, exp)
        s2 == [s EXCEPT !.res = res2, !.memo = IF e.fair = "none" THEN @ ELSE Put(@, key, exp)]
        v == IF Has(e.out, "skipped") THEN "skip"
             ELSE IF Has(e.out, "exc") THEN "violation:exception " \o e.out.exc
             ELSE IF ~e.out.isset THEN "violation:not-a-set"
             ELSE IF e.out.foreign # 0 THEN "violation:foreign-elements"
             ELSE IF ~(got \subseteq States(K)) THEN "violation:foreign-elements"
             ELSE IF got # exp THEN (IF e.fair = "none" THEN "violation:result" ELSE "violation:not-functional")
             \* an equal formula given as a freshly built object must give the same set (no state carried by the formula object)
             ELSE IF Has(e.out, "twin") /\ ToSet(e.out.twin) # got THEN "violation:depends-on-the-history-of-the-formula-object"
             ELSE IF ObjectsIntact(e, s) # "ok" THEN ObjectsIntact(e, s)
             ELSE IF ResOf(e) # res2 THEN "violation:results-changed"
             ELSE "ok"
    IN [v |-> v, s |-> s2]
  ELSE IF e.op = "badcall" THEN
    LET v == IF ~Has(e.out, "exc") THEN "violation:accepted-formula-outside-logic"
             ELSE IF e.out.exc # "TypeError" THEN "violation:wrong-exception " \o e.out.exc
             ELSE IF ObjectsIntact(e, s) # "ok" THEN ObjectsIntact(e, s) \o " (after a rejected call)"
             ELSE IF ResOf(e) # s.res THEN "violation:results-changed"
             ELSE "ok"
    IN [v |-> v, s |-> s]
  ELSE IF e.op = "mutate" THEN
    LET old == s.res[e.r]
        new == CASE Has(e, "noop") -> old        \* the result is an immutable set: nothing can be edited
                 [] e.kind = "clear" -> {}
                 [] e.kind = "add" -> old \cup {Foreign}
                 [] e.kind = "discard" -> IF old = {} THEN {} ELSE old \ {CHOOSE x \in old : \A y \in old : x <= y}
                 [] e.kind = "swap" -> IF old = {} THEN {} ELSE (old \ {CHOOSE x \in old : \A y \in old : x <= y}) \cup {Foreign}
        s2 == [s EXCEPT !.res = [@ EXCEPT ![e.r] = new]]
        v == IF ObjectsIntact(e, s) # "ok" THEN ObjectsIntact(e, s)
             ELSE IF ResOf(e) # s2.res THEN "violation:results-changed" ELSE "ok"
    IN [v |-> v, s |-> s2]
  ELSE \* drop
    LET s2 == [s EXCEPT !.res = [x \in DOMAIN @ \ {e.r} |-> @[x]]]
        v == IF ObjectsIntact(e, s) # "ok" THEN ObjectsIntact(e, s)
             ELSE IF ResOf(e) # s2.res THEN "violation:results-changed" ELSE "ok"
    IN [v |-> v, s |-> s2]
TInit == l = 1 /\ fails = <<>> /\ st = Empty /\ broken = FALSE
TNext == /\ l <= Len(TraceLog)
         /\ LET e == TraceLog[l]
                fresh == e.i = 0
                skip == broken /\ ~fresh
                j == IF skip THEN [v |-> "ok", s |-> st] ELSE Judge(e, st)
                bad == j.v \notin {"ok", "skip"}
            IN /\ fails' = IF bad THEN Append(fails, [tid |-> e.tid, v |-> j.v]) ELSE fails
               /\ st' = j.s
               /\ broken' = IF skip THEN TRUE ELSE (bad \/ j.v = "skip")
         /\ l' = l + 1
         /\ UNCHANGED vars
TSpec == TInit /\ Init /\ [][TNext]_<<l, fails, st, broken, ks, res, fairmemo, hist>>
Done == (l = Len(TraceLog) + 1) => JsonSerialize(IOEnv.OUT_FILE, [n |-> Len(TraceLog), fails |-> fails])
TPost == TLCGet("stats").diameter = Len(TraceLog) + 1
=======================================================================
