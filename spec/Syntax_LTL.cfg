CONSTANTS
  Lenient = FALSE
  Mode = "LTL"
SPECIFICATION Spec
INVARIANT InLogic
INVARIANT RoundTrip
INVARIANT CrossFeed
CHECK_DEADLOCK FALSE
