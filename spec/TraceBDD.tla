--------------------------- MODULE TraceBDD ---------------------------
(* Code -> spec: total-verdict validation of OBDD operation histories (C16) against      *)
(* module BDD with CPython reference-counting semantics (GCMode = "refcount").           *)
(* Lines: {tid, trace, i, op, <args>, out:{ok:1}|{exc}, proj}  where proj, after the op, is *)
(*   roots:  {handle: structure tree of the root, terminals 0/1, nodes [var, lo, hi]}    *)
(*   live:   number of live non-terminal nodes (from BDDNode.nodes())                    *)
(*   dups:   number of pairs of live non-terminals with the same (var, low, high)        *)
(*   same:   [[h1, h2, h1 == h2, h1.root is h2.root], ..] for all pairs of held handles  *)
(* The spec state is recomputed step by step with the BDD actions; order comes with the  *)
(* first line of each trace.                                                             *)
EXTENDS BDD, IOUtils, TLCExt
TraceLog == ndJsonDeserialize(IOEnv.TRACE_FILE)
NoOrder == <<"a">>
VARIABLES l, fails, sp, broken
ToSet(seq) == {seq[i] : i \in 1..Len(seq)}
Has(e, k) == k \in DOMAIN e
\* ho: the ordering each handle was built under.  The unique table is GLOBAL: OBDDs over different orderings live in
\* one heap and share structurally identical nodes, so histories may interleave several orderings.
Empty == [heap |-> <<>>, flow |-> [x \in {F, T} |-> {}], fhigh |-> [x \in {F, T} |-> {}], hs |-> <<>>, lb |-> <<>>, ord |-> <<>>, ho |-> <<>>]
\* the operators of BDD are written over the constant Order; traces carry their own ordering, so the
\* trace spec re-instantiates the recursion over s.ord
PosO(ord, v) == CHOOSE i \in 1..Len(ord) : ord[i] = v
RECURSIVE AppO(_, _, _, _, _)
AppO(ord, st, op, a, b) ==
  IF IsTerm(a) /\ IsTerm(b) THEN [st |-> st, id |-> OpVal(op, a, b)]
  ELSE LET va == IF IsTerm(a) THEN Len(ord) + 1 ELSE PosO(ord, st.heap[a].var)
           vb == IF IsTerm(b) THEN Len(ord) + 1 ELSE PosO(ord, st.heap[b].var)
           top == IF va <= vb THEN va ELSE vb
           alo == IF va = top THEN st.heap[a].lo ELSE a
           ahi == IF va = top THEN st.heap[a].hi ELSE a
           blo == IF vb = top THEN st.heap[b].lo ELSE b
           bhi == IF vb = top THEN st.heap[b].hi ELSE b
           r1 == AppO(ord, st, op, alo, blo)
           r2 == AppO(ord, r1.st, op, ahi, bhi)
       IN Mk(r2.st, ord[top], r1.id, r2.id)
RECURSIVE TreeJ(_, _)
TreeJ(hp, n) == IF IsTerm(n) THEN <<"t", n>> ELSE <<hp[n].var, TreeJ(hp, hp[n].lo), TreeJ(hp, hp[n].hi)>>
RECURSIVE EvalH(_, _, _)
EvalH(hp, n, asg) == IF IsTerm(n) THEN n = T ELSE EvalH(hp, IF hp[n].var \in asg THEN hp[n].hi ELSE hp[n].lo, asg)
TtH(hp, ord, n) == {asg \in SUBSET ToSet(ord) : EvalH(hp, n, asg)}
PutH(hs, h, id) == [x \in DOMAIN hs \cup {h} |-> IF x = h THEN id ELSE hs[x]]
StoreOf(s) == [heap |-> s.heap, flow |-> s.flow, fhigh |-> s.fhigh]
RootsOf(hs, lb) == {hs[h] : h \in DOMAIN hs} \cup {lb[h] : h \in DOMAIN lb}
WithSt(s, st, hs, lb) == LET sw == Sweep(st, RootsOf(hs, lb)) IN
                         [heap |-> sw.heap, flow |-> sw.flow, fhigh |-> sw.fhigh, hs |-> hs, lb |-> lb, ord |-> s.ord, ho |-> s.ho]
OrdOf(e, s) == IF Has(e, "order") THEN e.order ELSE s.ord
SetHo(s, h, o) == [s EXCEPT !.ho = PutH(@, h, o)]
MixedOrders(e, s) == e.op = "apply" /\ s.ho[e.h1] # s.ho[e.h2]
\* spec successor for one recorded op
Step(e, s) ==
  CASE e.op = "start" -> [Empty EXCEPT !.ord = e.order]
    [] e.op = "var" -> LET r == Mk(StoreOf(s), e.v, F, T) IN SetHo(WithSt(s, r.st, PutH(s.hs, e.h, r.id), s.lb), e.h, OrdOf(e, s))
    [] e.op = "const" -> SetHo(WithSt(s, StoreOf(s), PutH(s.hs, e.h, IF e.b THEN T ELSE F), s.lb), e.h, OrdOf(e, s))
    [] e.op = "apply" -> IF MixedOrders(e, s) THEN s       \* must raise RuntimeError and change nothing
                         ELSE LET r == AppO(s.ho[e.h1], StoreOf(s), e.bop, s.hs[e.h1], s.hs[e.h2]) IN
                              SetHo(WithSt(s, r.st, PutH(s.hs, e.h, r.id), s.lb), e.h, s.ho[e.h1])
    [] e.op = "not" -> LET r == Inv(StoreOf(s), s.hs[e.h1]) IN SetHo(WithSt(s, r.st, PutH(s.hs, e.h, r.id), s.lb), e.h, s.ho[e.h1])
    [] e.op = "restrict" -> LET r == Res(StoreOf(s), s.hs[e.h1], e.v, e.b) IN SetHo(WithSt(s, r.st, PutH(s.hs, e.h, r.id), s.lb), e.h, s.ho[e.h1])
    [] e.op = "park" -> [s EXCEPT !.hs = [x \in DOMAIN s.hs \ {e.h} |-> s.hs[x]], !.lb = PutH(s.lb, e.h, s.hs[e.h])]
    [] e.op = "release" -> WithSt(s, StoreOf(s), [x \in DOMAIN s.hs \ {e.h} |-> s.hs[x]], [x \in DOMAIN s.lb \ {e.h} |-> s.lb[x]])
    [] e.op = "gc" -> s
AllOf(s) == [h \in DOMAIN s.hs \cup DOMAIN s.lb |-> IF h \in DOMAIN s.hs THEN s.hs[h] ELSE s.lb[h]]
Judge(e, s2) ==
  IF e.op = "start" THEN "ok"
  ELSE IF Has(e, "mixed") /\ e.mixed THEN
       (IF Has(e.out, "exc") /\ e.out.exc = "RuntimeError" THEN "ok"
        ELSE IF Has(e.out, "exc") THEN "violation:wrong-exception " \o e.out.exc ELSE "violation:combined-different-orderings")
  ELSE IF Has(e.out, "exc") THEN "violation:exception " \o e.out.exc
  ELSE LET all == AllOf(s2) IN
    IF DOMAIN e.proj.roots # DOMAIN all THEN "MACHINERY:handles"
    ELSE IF \E h \in DOMAIN all : e.proj.roots[h] # TreeJ(s2.heap, all[h]) THEN "violation:structure (function, reducedness or ordering of a result)"
    ELSE IF e.proj.dups # 0 THEN "violation:duplicate-triple (two live nodes with one (var, low, high))"
    ELSE IF \E p \in ToSet(e.proj.same) :
              LET o1 == s2.ho[p[1]]  o2 == s2.ho[p[2]] IN
              IF o1 = o2 THEN LET samefn == TtH(s2.heap, o1, all[p[1]]) = TtH(s2.heap, o1, all[p[2]]) IN p[3] # samefn \/ p[4] # samefn
              ELSE p[3] \/ (p[4] # (all[p[1]] = all[p[2]]))     \* different orderings: never ==; same root iff same structure
         THEN "violation:canonicity (== / identical root iff same function)"
    ELSE IF e.proj.live # Cardinality(DOMAIN s2.heap) THEN "violation:live-node-count (nodes not released, or released too early)"
    ELSE "ok"
TInit == l = 1 /\ fails = <<>> /\ sp = Empty /\ broken = FALSE
TNext == /\ l <= Len(TraceLog)
         /\ LET e == TraceLog[l]
                fresh == e.i = 0
                skip == broken /\ ~fresh
                s2 == IF skip THEN sp ELSE Step(e, sp)
                v == IF skip THEN "ok" ELSE Judge(e, s2)
            IN /\ fails' = IF v = "ok" THEN fails ELSE Append(fails, [tid |-> e.tid, v |-> v])
               /\ sp' = s2
               /\ broken' = IF skip THEN TRUE ELSE v # "ok"
         /\ l' = l + 1
         /\ UNCHANGED vars
TSpec == TInit /\ Init /\ [][TNext]_<<l, fails, sp, broken, heap, flow, fhigh, handles, limbo, hist>>
Done == (l = Len(TraceLog) + 1) => JsonSerialize(IOEnv.OUT_FILE, [n |-> Len(TraceLog), fails |-> fails])
TPost == TLCGet("stats").diameter = Len(TraceLog) + 1
=======================================================================
