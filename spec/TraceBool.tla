--------------------------- MODULE TraceBool ---------------------------
(* Code -> spec: validation of OBDD construction and operations (C17, C18).              *)
(*  build    {notation:"expr"|"lambda", order, e, out:{tree,vars}|{exc}}                 *)
(*  binop    {order, e1, e2, bop, out}     not {order, e1, out}     restrict {order, e1, v, b, out}  *)
(*  mixorder {out}   two OBDDs over different orderings combined: RuntimeError           *)
(*  strrt    {order, e, base, rt1, rt2}    OBDD(str(o.root), o.ordering), OBDD(str(o))   *)
(*  eqpair   {order, e1, e2, eq, same}     == and root identity vs equality of functions *)
EXTENDS BoolExpr, Json, IOUtils, TLCExt
TraceLog == ndJsonDeserialize(IOEnv.TRACE_FILE)
VARIABLES l, fails
Has(e, k) == k \in DOMAIN e
OkTree(o, tt, ord) == Has(o, "tree") /\ o.tree = Robdd(tt, ord) /\ SeqSet(o.vars) = Support(tt, ord)
Why(o, tt, ord) == IF Has(o, "exc") THEN "violation:exception " \o o.exc
                   ELSE IF o.tree # Robdd(tt, ord) THEN "violation:structure (function, reducedness or ordering)"
                   ELSE "violation:variables()"
Verdict(e) ==
  CASE e.op = "build" ->
         LET missing == ~(VarsOf(e.e) \subseteq SeqSet(e.order))  bad == HasBad(e.e) IN
         IF bad \/ missing THEN
              (IF ~Has(e.out, "exc") THEN "violation:accepted-invalid-expression"
               ELSE IF bad /\ e.out.exc = "SyntaxError" THEN "ok"
               ELSE IF missing /\ e.out.exc = "RuntimeError" THEN "ok"
               ELSE "violation:wrong-exception " \o e.out.exc)
         ELSE IF OkTree(e.out, TT(e.e, e.order), e.order) THEN "ok" ELSE Why(e.out, TT(e.e, e.order), e.order)
    [] e.op = "binop" -> LET tt == BinTT(e.bop, TT(e.e1, e.order), TT(e.e2, e.order)) IN
                         IF OkTree(e.out, tt, e.order) THEN "ok" ELSE Why(e.out, tt, e.order)
    [] e.op = "not" -> LET tt == (SUBSET SeqSet(e.order)) \ TT(e.e1, e.order) IN
                       IF OkTree(e.out, tt, e.order) THEN "ok" ELSE Why(e.out, tt, e.order)
    [] e.op = "restrict" ->
         LET A == TT(e.e1, e.order)
             tt == {a \in SUBSET SeqSet(e.order) : (IF e.b THEN a \cup {e.v} ELSE a \ {e.v}) \in A} IN
         IF OkTree(e.out, tt, e.order) THEN "ok" ELSE Why(e.out, tt, e.order)
    [] e.op = "mixorder" -> IF Has(e.out, "exc") /\ e.out.exc = "RuntimeError" THEN "ok"
                            ELSE IF Has(e.out, "exc") THEN "violation:wrong-exception " \o e.out.exc
                            ELSE "violation:combined-different-orderings"
    [] e.op = "strrt" ->
         LET want == Robdd(TT(e.e, e.order), e.order) IN
         IF Has(e.base, "exc") THEN "violation:exception " \o e.base.exc
         ELSE IF e.base.tree # want THEN "violation:structure (function, reducedness or ordering)"
         ELSE IF Has(e.rt1, "exc") \/ Has(e.rt2, "exc") THEN "violation:printed-form-does-not-parse"
         ELSE IF e.rt1.tree # want \/ ~e.rt1.eq THEN "violation:str(root)-roundtrip"
         ELSE IF e.rt2.tree # want \/ ~e.rt2.eq THEN "violation:str(obdd)-roundtrip"
         ELSE "ok"
    [] e.op = "eqpair" -> LET same == TT(e.e1, e.order) = TT(e.e2, e.order) IN
                          IF e.eq = same /\ e.same = same THEN "ok" ELSE "violation:canonicity"
Init == l = 1 /\ fails = <<>>
Next == /\ l <= Len(TraceLog)
        /\ LET e == TraceLog[l]  v == Verdict(e) IN
           fails' = IF v = "ok" THEN fails ELSE Append(fails, [tid |-> e.tid, v |-> v])
        /\ l' = l + 1
Spec == Init /\ [][Next]_<<l, fails>>
Done == (l = Len(TraceLog) + 1) => JsonSerialize(IOEnv.OUT_FILE, [n |-> Len(TraceLog), fails |-> fails])
Post == TLCGet("stats").diameter = Len(TraceLog) + 1
=========================================================================
