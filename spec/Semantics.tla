-------------------------- MODULE Semantics --------------------------
(* Layer A: the documented CTL / LTL / CTL* semantics over Kripke values, in three      *)
(* independent formulations that MC_Sem cross-checks:                                   *)
(*   SatCTL   - textbook fixpoint characterisation of every CTL operator pair           *)
(*   SatStar  - CTL* by innermost-first evaluation; E g decided by an elementary-set    *)
(*              tableau with Emerson-Lei fair-cycle detection (optionally with the      *)
(*              user's fairness sets Fc)                                                *)
(*   PH / ExistsLasso - the documentation's path clauses transliterated on ultimately   *)
(*              periodic paths                                                          *)
(* Formulas are tagged tuples: <<"ap",name>>, <<"true">>, <<"false">>, <<"not",f>>,     *)
(* <<"or",f1,..,fk>>, <<"and",f1,..,fk>> (k>=2), <<"imp",f,g>>, <<"X",f>>, <<"F",f>>,   *)
(* <<"G",f>>, <<"U",f,g>>, <<"R",f,g>>, <<"A",f>>, <<"E",f>>, and internally            *)
(* <<"set",X>> for an already evaluated state subformula.  Elim normalises n-ary and/or *)
(* to right-nested binary ones, so the path-level operators (El, Holds, PH) see arity 2. *)
EXTENDS Kripke

IsTemporal(t) == t \in {"X", "F", "G", "U", "R"}
IsLeafTag(t)  == t \in {"ap", "true", "false", "set"}
Args(f) == {f[i] : i \in 2..Len(f)}

\* ------------------------------------------------------------------ 1. CTL fixpoints
RECURSIVE Lfp(_, _, _, _)
Lfp(K, A, B, Z) == LET Z2 == B \cup (A \cap Pre(K, Z)) \cup Z IN IF Z2 = Z THEN Z ELSE Lfp(K, A, B, Z2)
RECURSIVE Gfp(_, _, _)
Gfp(K, A, Z) == LET Z2 == Z \cap A \cap Pre(K, Z) IN IF Z2 = Z THEN Z ELSE Gfp(K, A, Z2)
EUx(K, A, B) == Lfp(K, A, B, B)
EGx(K, A)    == Gfp(K, A, A)
AXx(K, A)    == States(K) \ Pre(K, States(K) \ A)
\* A(f U g): least fixpoint of Z = g \/ (f /\ AX Z)   (K total)
RECURSIVE LfpA(_, _, _, _)
LfpA(K, A, B, Z) == LET Z2 == B \cup (A \cap AXx(K, Z)) \cup Z IN IF Z2 = Z THEN Z ELSE LfpA(K, A, B, Z2)
AUx(K, A, B) == LfpA(K, A, B, B)
\* A(f R g): greatest fixpoint of Z = g /\ (f \/ AX Z)
RECURSIVE GfpAR(_, _, _, _)
GfpAR(K, A, B, Z) == LET Z2 == Z \cap B \cap (A \cup AXx(K, Z)) IN IF Z2 = Z THEN Z ELSE GfpAR(K, A, B, Z2)
ARx(K, A, B) == GfpAR(K, A, B, B)
\* E(f R g): greatest fixpoint of Z = g /\ (f \/ EX Z)
RECURSIVE GfpER(_, _, _, _)
GfpER(K, A, B, Z) == LET Z2 == Z \cap B \cap (A \cup Pre(K, Z)) IN IF Z2 = Z THEN Z ELSE GfpER(K, A, B, Z2)
ERx(K, A, B) == GfpER(K, A, B, B)

RECURSIVE SatCTL(_, _)
SatCTLq(K, q, g) ==
  LET o == g[1]  S == States(K) IN
  IF q = "E" THEN
     CASE o = "X" -> Pre(K, SatCTL(K, g[2]))
       [] o = "F" -> EUx(K, S, SatCTL(K, g[2]))
       [] o = "G" -> EGx(K, SatCTL(K, g[2]))
       [] o = "U" -> EUx(K, SatCTL(K, g[2]), SatCTL(K, g[3]))
       [] o = "R" -> ERx(K, SatCTL(K, g[2]), SatCTL(K, g[3]))
  ELSE
     CASE o = "X" -> AXx(K, SatCTL(K, g[2]))
       [] o = "F" -> AUx(K, S, SatCTL(K, g[2]))
       [] o = "G" -> ARx(K, {}, SatCTL(K, g[2]))
       [] o = "U" -> AUx(K, SatCTL(K, g[2]), SatCTL(K, g[3]))
       [] o = "R" -> ARx(K, SatCTL(K, g[2]), SatCTL(K, g[3]))
SatCTL(K, f) ==
  LET t == f[1]  S == States(K) IN
  CASE t = "ap"    -> {s \in S : f[2] \in K.L[s]}
    [] t = "set"   -> f[2]
    [] t = "true"  -> S
    [] t = "false" -> {}
    [] t = "not"   -> S \ SatCTL(K, f[2])
    [] t = "or"    -> UNION {SatCTL(K, x) : x \in Args(f)}
    [] t = "and"   -> LET sets == {SatCTL(K, x) : x \in Args(f)} IN {s \in S : \A X \in sets : s \in X}
    [] t = "imp"   -> (S \ SatCTL(K, f[2])) \cup SatCTL(K, f[3])
    [] t \in {"A", "E"} -> SatCTLq(K, t, f[2])

\* ------------------------------------------------------------------ 2. CTL* tableau
\* elementary (temporal) subformulas of a path formula, not descending into leaves
RECURSIVE El(_)
El(g) == LET t == g[1] IN
   IF IsLeafTag(t) THEN {}
   ELSE (IF IsTemporal(t) THEN {g} ELSE {}) \cup El(g[2]) \cup (IF Len(g) = 3 THEN El(g[3]) ELSE {})

\* truth of h at tableau atom <<s, bits>>: bits \subseteq El(g) records, for X-formulas the
\* formula itself, for U/F/G/R formulas "X of the formula"
RECURSIVE Holds(_, _, _)
Holds(s, bits, h) == LET t == h[1] IN
   CASE t = "set"   -> s \in h[2]
     [] t = "true"  -> TRUE
     [] t = "false" -> FALSE
     [] t = "not"   -> ~Holds(s, bits, h[2])
     [] t = "or"    -> Holds(s, bits, h[2]) \/ Holds(s, bits, h[3])
     [] t = "and"   -> Holds(s, bits, h[2]) /\ Holds(s, bits, h[3])
     [] t = "imp"   -> ~Holds(s, bits, h[2]) \/ Holds(s, bits, h[3])
     [] t = "X"     -> h \in bits
     [] t = "U"     -> Holds(s, bits, h[3]) \/ (Holds(s, bits, h[2]) /\ h \in bits)
     [] t = "F"     -> Holds(s, bits, h[2]) \/ h \in bits
     [] t = "G"     -> Holds(s, bits, h[2]) /\ h \in bits
     [] t = "R"     -> Holds(s, bits, h[3]) /\ (Holds(s, bits, h[2]) \/ h \in bits)

RECURSIVE BackReach(_, _, _, _)
BackReach(pred, Z, Y, Frontier) ==
   LET New == (Z \cap UNION {pred[b] : b \in Frontier}) \ Y IN
   IF New = {} THEN Y ELSE BackReach(pred, Z, Y \cup New, New)
\* Emerson-Lei: nu Z. /\_i  pre(E[Z U (Z /\ fair_i)])
RECURSIVE ELStep(_, _, _)
ELStep(pred, fair, Z) ==
   LET Good(Fi) == LET T == Z \cap Fi IN LET Y == BackReach(pred, Z, T, T) IN Z \cap UNION {pred[b] : b \in Y}
       newZ == {a \in Z : \A Fi \in fair : a \in Good(Fi)} IN
   IF newZ = Z THEN Z ELSE ELStep(pred, fair, newZ)

\* states with a (Fc-fair) path satisfying g; leaves of g are "set"/"true"/"false"
ELTL(K, g, Fc) ==
   LET el == El(g)
       S == States(K)
       Atoms == S \X SUBSET el
       NextVal(b, h) == IF h[1] = "X" THEN Holds(b[1], b[2], h[2]) ELSE Holds(b[1], b[2], h)
       PreS == [t \in S |-> {s \in S : <<s, t>> \in K.R}]
       \* a -> b  iff  a's bits are exactly the formulas whose "next value" is true at b
       pred == [b \in Atoms |-> LET nv == {h \in el : NextVal(b, h)} IN {<<s, nv>> : s \in PreS[b[1]]}]
       FairOf(h) == CASE h[1] = "U" -> {a \in Atoms : ~Holds(a[1], a[2], h) \/ Holds(a[1], a[2], h[3])}
                      [] h[1] = "F" -> {a \in Atoms : ~Holds(a[1], a[2], h) \/ Holds(a[1], a[2], h[2])}
                      [] h[1] = "G" -> {a \in Atoms : Holds(a[1], a[2], h) \/ ~Holds(a[1], a[2], h[2])}
                      [] h[1] = "R" -> {a \in Atoms : Holds(a[1], a[2], h) \/ ~Holds(a[1], a[2], h[3])}
                      [] OTHER -> Atoms
       fair == {FairOf(h) : h \in {x \in el : x[1] # "X"}} \cup {Atoms}
               \cup {{a \in Atoms : a[1] \in P} : P \in Fc}
       Z == ELStep(pred, fair, Atoms)
   IN {a[1] : a \in {b \in Z : Holds(b[1], b[2], g)}}

RECURSIVE SatStar(_, _), Elim(_, _)
\* replace maximal state subformulas of a path formula by their satisfaction sets
Elim(K, g) == LET t == g[1] IN
   CASE t \in {"A", "E"} -> <<"set", SatStar(K, g)>>
     [] t = "ap" -> <<"set", {s \in States(K) : g[2] \in K.L[s]}>>
     [] t \in {"true", "false", "set"} -> g
     [] Len(g) = 2 -> <<t, Elim(K, g[2])>>
     [] Len(g) = 3 -> <<t, Elim(K, g[2]), Elim(K, g[3])>>
     [] OTHER -> <<t, Elim(K, g[2]), Elim(K, <<t>> \o SubSeq(g, 3, Len(g)))>>   \* n-ary and/or, right-nested
SatStar(K, f) == LET t == f[1]  S == States(K) IN
  CASE t = "ap"    -> {s \in S : f[2] \in K.L[s]}
    [] t = "set"   -> f[2]
    [] t = "true"  -> S
    [] t = "false" -> {}
    [] t = "not"   -> S \ SatStar(K, f[2])
    [] t = "or"    -> UNION {SatStar(K, x) : x \in Args(f)}
    [] t = "and"   -> LET sets == {SatStar(K, x) : x \in Args(f)} IN {s \in S : \A X \in sets : s \in X}
    [] t = "imp"   -> (S \ SatStar(K, f[2])) \cup SatStar(K, f[3])
    [] t = "E"     -> ELTL(K, Elim(K, f[2]), {})
    [] t = "A"     -> S \ ELTL(K, <<"not", Elim(K, f[2])>>, {})

\* ------------------------------------------------------------------ 2b. fair semantics
\* Clarke-Grumberg-Peled: A/E range over Fc-fair paths; an atomic proposition (Booleans
\* are atomic propositions in this library's documentation) holds at s iff it is in L(s)
\* and a fair path starts at s.
FairStates(K, Fc) == ELTL(K, <<"true">>, Fc)
RECURSIVE SatF(_, _, _, _), ElimF(_, _, _, _)
ElimF(K, g, Fc, FS) == LET t == g[1] IN
   CASE t \in {"A", "E"} -> <<"set", SatF(K, g, Fc, FS)>>
     [] t = "ap"   -> <<"set", {s \in States(K) : g[2] \in K.L[s]} \cap FS>>
     [] t = "true" -> <<"set", FS>>
     [] t \in {"false", "set"} -> g
     [] Len(g) = 2 -> <<t, ElimF(K, g[2], Fc, FS)>>
     [] Len(g) = 3 -> <<t, ElimF(K, g[2], Fc, FS), ElimF(K, g[3], Fc, FS)>>
     [] OTHER -> <<t, ElimF(K, g[2], Fc, FS), ElimF(K, <<t>> \o SubSeq(g, 3, Len(g)), Fc, FS)>>
SatF(K, f, Fc, FS) == LET t == f[1]  S == States(K) IN
  CASE t = "ap"    -> {s \in S : f[2] \in K.L[s]} \cap FS
    [] t = "set"   -> f[2]
    [] t = "true"  -> FS
    [] t = "false" -> {}
    [] t = "not"   -> S \ SatF(K, f[2], Fc, FS)
    [] t = "or"    -> UNION {SatF(K, x, Fc, FS) : x \in Args(f)}
    [] t = "and"   -> LET sets == {SatF(K, x, Fc, FS) : x \in Args(f)} IN {s \in S : \A X \in sets : s \in X}
    [] t = "imp"   -> (S \ SatF(K, f[2], Fc, FS)) \cup SatF(K, f[3], Fc, FS)
    [] t = "E"     -> ELTL(K, ElimF(K, f[2], Fc, FS), Fc)
    [] t = "A"     -> S \ ELTL(K, <<"not", ElimF(K, f[2], Fc, FS)>>, Fc)
SatFair(K, f, Fc) == SatF(K, f, Fc, FairStates(K, Fc))

\* ------------------------------------------------------------------ 3. lasso semantics
\* lasso: w \in [1..m -> States], loop back from position m to position ls
Nxt(m, ls, i) == IF i < m THEN i + 1 ELSE ls
RECURSIVE Walk(_, _, _, _)
Walk(m, ls, i, k) == IF k = 0 THEN i ELSE Walk(m, ls, Nxt(m, ls, i), k - 1)
RECURSIVE PH(_, _, _, _, _)
\* PH(w, m, ls, i, h): the suffix of the lasso starting at position i satisfies h.
\* Quantification over "all i in N" is over 0..m steps, which reaches every distinct suffix.
PH(w, m, ls, i, h) == LET t == h[1] IN
   CASE t = "set"   -> w[i] \in h[2]
     [] t = "true"  -> TRUE
     [] t = "false" -> FALSE
     [] t = "not"   -> ~PH(w, m, ls, i, h[2])
     [] t = "or"    -> PH(w, m, ls, i, h[2]) \/ PH(w, m, ls, i, h[3])
     [] t = "and"   -> PH(w, m, ls, i, h[2]) /\ PH(w, m, ls, i, h[3])
     [] t = "imp"   -> ~PH(w, m, ls, i, h[2]) \/ PH(w, m, ls, i, h[3])
     [] t = "X"     -> PH(w, m, ls, Nxt(m, ls, i), h[2])
     [] t = "F"     -> \E k \in 0..m : PH(w, m, ls, Walk(m, ls, i, k), h[2])
     [] t = "G"     -> \A k \in 0..m : PH(w, m, ls, Walk(m, ls, i, k), h[2])
     [] t = "U"     -> \E k \in 0..m : /\ PH(w, m, ls, Walk(m, ls, i, k), h[3])
                                       /\ \A j \in 0..(k-1) : PH(w, m, ls, Walk(m, ls, i, j), h[2])
     [] t = "R"     -> \A k \in 0..m : (\A j \in 0..(k-1) : ~PH(w, m, ls, Walk(m, ls, i, j), h[2]))
                                        => PH(w, m, ls, Walk(m, ls, i, k), h[3])
ValidLasso(K, w, m, ls) == /\ \A i \in 1..(m-1) : <<w[i], w[i+1]>> \in K.R
                           /\ <<w[m], w[ls]>> \in K.R
ExistsLasso(K, s, h, bound) == \E m \in 1..bound : \E w \in [1..m -> States(K)] : \E ls \in 1..m :
                                 w[1] = s /\ ValidLasso(K, w, m, ls) /\ PH(w, m, ls, 1, h)
LassoSat(K, h, bound) == {s \in States(K) : ExistsLasso(K, s, h, bound)}
\* a witness lasso (for replay files): <<w, ls>> or <<>> when none exists within the bound
LassoWitness(K, s, h, bound) ==
  LET W == {x \in UNION {{<<w, ls>> : w \in [1..m -> States(K)], ls \in 1..m} : m \in 1..bound} :
              x[1][1] = s /\ ValidLasso(K, x[1], Len(x[1]), x[2]) /\ PH(x[1], Len(x[1]), x[2], 1, h)}
  IN IF W = {} THEN <<>> ELSE CHOOSE x \in W : TRUE
=======================================================================
