CONSTANTS
  Lenient = FALSE
  Mode = "CTL"
SPECIFICATION Spec
INVARIANT InLogic
INVARIANT RoundTrip
INVARIANT CrossFeed
CHECK_DEADLOCK FALSE
