CONSTANTS
  Lenient = TRUE
SPECIFICATION Spec
INVARIANT Done
POSTCONDITION Post
CHECK_DEADLOCK FALSE
