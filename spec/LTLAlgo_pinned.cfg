CONSTANTS
  FIXED = FALSE
  MaxN = 2
  Family <- FamQ
  APs <- APsC
SPECIFICATION Spec
INVARIANT AnswerExact
INVARIANT AtomsConsistent
CHECK_DEADLOCK FALSE
