-------------------------- MODULE TraceAtoms --------------------------
(* Layer-B binding for C02 (diagnostic): the tableau atoms that the real _build_atoms     *)
(* produced - recorded through a harness-side wrapper - are checked for local consistency *)
(* as LTLAlgo!Consistent demands: every atom decides every closure formula exactly one     *)
(* way, never contains `false`, agrees with the labels of its state, respects `or` and the *)
(* expansion law of `U`.   {tid, n, R, L, f, closure:[..], atoms:[[state,[formulas]],..]}   *)
EXTENDS Formulas, Json, IOUtils, TLCExt
TraceLog == ndJsonDeserialize(IOEnv.TRACE_FILE)
VARIABLES l, fails
ToSet(seq) == {seq[i] : i \in 1..Len(seq)}
Xf(f) == <<"X", f>>
Bad(e, a) ==
  LET C == ToSet(e.closure)
      s == a[1]
      fs == ToSet(a[2])
      lab == ToSet(e.L[s + 1])
  IN \E f \in C :
       \/ (f \in fs /\ LNot(f) \in fs)
       \/ (f # <<"not", <<"true">>>> /\ f \notin fs /\ LNot(f) \notin fs)
       \/ (f = Fa /\ f \in fs)
       \/ (f[1] = "ap" /\ ((f \in fs) # (f[2] \in lab)))
       \/ (f[1] = "or" /\ ((f \in fs) # (\E x \in FArgs(f) : x \in fs)))
       \/ (f[1] = "U" /\ ((f \in fs) # (f[3] \in fs \/ (f[2] \in fs /\ Xf(f) \in fs))))
Init == l = 1 /\ fails = <<>>
Next == /\ l <= Len(TraceLog)
        /\ LET e == TraceLog[l]
               bad == {i \in 1..Len(e.atoms) : Bad(e, e.atoms[i])}
           IN fails' = IF bad = {} THEN fails ELSE Append(fails, [tid |-> e.tid, v |-> "drift:inconsistent-atom", atom |-> e.atoms[CHOOSE i \in bad : TRUE]])
        /\ l' = l + 1
Spec == Init /\ [][Next]_<<l, fails>>
Done == (l = Len(TraceLog) + 1) => JsonSerialize(IOEnv.OUT_FILE, [n |-> Len(TraceLog), fails |-> fails])
Post == TLCGet("stats").diameter = Len(TraceLog) + 1
=======================================================================
