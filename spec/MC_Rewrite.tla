---------------------------- MODULE MC_Rewrite ----------------------------
(* Design level for C05: the transcribed rewriting rules (RestrictCTL, RestrictCTLS, LNot) *)
(* land in the documented restricted alphabets and preserve meaning, for every formula of  *)
(* the family and every structure / lasso of the scope.  Because the code's output is      *)
(* compared with these transcriptions (drift counter), a rule and its copy cannot both be  *)
(* wrong unnoticed.                                                                        *)
EXTENDS Semantics, Formulas, SequencesExt
CONSTANTS ScopeN, LassoB
VARIABLE c
P == <<"ap", "p">>  Q == <<"ap", "q">>
L0 == {P, Q, Tr, Fa}
M0 == {P, Q}
CTLq(S) == {<<q, <<o, f>>>> : q \in {"A", "E"}, o \in {"X", "F", "G"}, f \in S}
           \cup {<<q, <<o, f, h>>>> : q \in {"A", "E"}, o \in {"U", "R"}, f \in S, h \in S}
Bool1(S) == {<<"not", f>> : f \in S} \cup {<<o, f, h>> : o \in {"or", "and", "imp"}, f \in S, h \in S}
CTL1 == L0 \cup CTLq(L0) \cup Bool1(L0)
CTLfam == CTL1 \cup CTLq({<<"not", P>>, <<"E", <<"X", Q>>>>, <<"A", <<"U", P, Q>>>>}) \cup Bool1(CTLq({P}))
          \cup {<<"and", P, <<"A", <<"G", Q>>>>, <<"not", Q>>>>, <<"not", <<"not", <<"A", <<"F", P>>>>>>>>}
Un(S) == {<<o, f>> : o \in {"not", "X", "F", "G"}, f \in S}
Bi(S) == {<<o, f, h>> : o \in {"or", "and", "imp", "U", "R"}, f \in S, h \in S}
Pathfam == L0 \cup Un(L0) \cup Bi(L0) \cup Un(Un(M0)) \cup Un(Bi(M0))
           \cup {<<"and", <<"X", P>>, <<"G", Q>>, <<"not", P>>>>, <<"not", <<"not", <<"not", <<"X", P>>>>>>>>}
AP2 == {"p", "q"}
SmallKs == KripkesUpTo(ScopeN, AP2)
Lassos == UNION {{[K |-> [n |-> m, R |-> {<<i, i+1>> : i \in 0..(m-2)} \cup {<<m-1, ls-1>>}, L |-> L], m |-> m, ls |-> ls] :
                    L \in [0..(m-1) -> SUBSET AP2], ls \in 1..m} : m \in 1..LassoB}
Ident(m) == [i \in 1..m |-> i - 1]
PathHolds(z, h) == PH(Ident(z.m), z.m, z.ls, 1, Elim(z.K, h))
\* two-level fan-out (bucket, then formula) so that all TLC workers share the evaluation
All == SetToSeq({<<"ctl", x>> : x \in CTLfam} \cup {<<"path", x>> : x \in Pathfam})
NB == 64
Init == c = <<>>
Next == \/ c = <<>> /\ c' \in {<<"bucket", i>> : i \in 0..(NB-1)}
        \/ c # <<>> /\ c[1] = "bucket" /\ c' \in {All[k] : k \in {j \in 1..Len(All) : j % NB = c[2]}}
Spec == Init /\ [][Next]_c
f == c[2]
RuleCTL == (c # <<>> /\ c[1] = "ctl") =>
   LET g == RestrictCTL(f)  h == RestrictCTLS(f) IN
   /\ InRestrictedCTL(g) /\ InRestrictedCTLS(h)
   /\ \A K \in SmallKs : SatStar(K, f) = SatStar(K, g) /\ SatStar(K, f) = SatStar(K, h)
   /\ ~StartsWithTwoNots(LNot(f))
   /\ \A K \in SmallKs : SatStar(K, LNot(f)) = States(K) \ SatStar(K, f)
RulePath == (c # <<>> /\ c[1] = "path") =>
   LET g == RestrictCTLS(f) IN
   /\ InRestrictedCTLS(g)
   /\ \A z \in Lassos : PathHolds(z, f) = PathHolds(z, g)
   /\ ~StartsWithTwoNots(LNot(f))
   /\ \A z \in Lassos : PathHolds(z, LNot(f)) = ~PathHolds(z, f)
===========================================================================
