---------------------------- MODULE LargeShapes ----------------------------
(* Parametric families of LARGE graphs and Kripke structures whose answers have closed forms. *)
(* Small scopes cannot contain behaviour that depends on size (recursion depth, thresholds,  *)
(* quadratic paths); a structure with thousands of states cannot be handed to the generic    *)
(* semantics either.  A "lasso" Lasso(n, b) has nodes 0..n-1, edges i -> i+1 for i < n-1 and *)
(* n-1 -> b: a chain of b nodes into a cycle of n-b nodes.  As a Kripke structure            *)
(* LassoK(n, b, m) labels the states below m with p and the others with q (1 <= m <= n-1).   *)
(* Every state has exactly one path, so A and E coincide and CTL, LTL and CTL* agree.        *)
(* MC_LargeShapes checks the closed forms below against the generic definitions (GReach,     *)
(* GSCCs, SatCTL, SatStar) for every n <= 6; TraceBig applies them to calls of the real code *)
(* on structures with thousands of states.                                                   *)
EXTENDS Semantics
LassoG(n, b) == [V |-> 0..(n - 1), E |-> {<<i, i + 1>> : i \in 0..(n - 2)} \cup {<<n - 1, b>>}]
LassoK(n, b, m) == [n |-> n, R |-> LassoG(n, b).E, L |-> [i \in 0..(n - 1) |-> IF i < m THEN {"p"} ELSE {"q"}]]
MinOf(S) == CHOOSE x \in S : \A y \in S : x <= y
MaxOf(S) == CHOOSE x \in S : \A y \in S : y <= x
Lo(a, c) == IF a < c THEN a ELSE c
\* X plus everything reachable from X
ReachL(n, b, X) == IF X = {} THEN {} ELSE Lo(MinOf(X), b)..(n - 1)
\* X plus everything that reaches X (reachability in the reversed graph)
BackL(n, b, X) == IF X = {} THEN {} ELSE IF b <= MaxOf(X) THEN 0..(n - 1) ELSE 0..MaxOf(X)
SCCsL(n, b) == {b..(n - 1)} \cup {{i} : i \in 0..(b - 1)}
\* named queries: the formula (for the generic semantics / the library) and its closed form
P == <<"ap", "p">>  Q == <<"ap", "q">>
Names == {"EFq", "EpUq", "EGp", "EXq", "EGq", "AFp", "AGFq", "AFGq", "AGEFq", "notEGq"}
StateFormula(nm) ==
  CASE nm = "EFq" -> <<"E", <<"F", Q>>>>   [] nm = "EpUq" -> <<"E", <<"U", P, Q>>>>  [] nm = "EGp" -> <<"E", <<"G", P>>>>
    [] nm = "EXq" -> <<"E", <<"X", Q>>>>   [] nm = "EGq" -> <<"E", <<"G", Q>>>>      [] nm = "AFp" -> <<"A", <<"F", P>>>>
    [] nm = "AGFq" -> <<"A", <<"G", <<"F", Q>>>>>>   [] nm = "AFGq" -> <<"A", <<"F", <<"G", Q>>>>>>
    [] nm = "AGEFq" -> <<"A", <<"G", <<"E", <<"F", Q>>>>>>>>   [] nm = "notEGq" -> <<"not", <<"E", <<"G", Q>>>>>>
IsCTL(nm) == nm \notin {"AGFq", "AFGq"}
All(n) == 0..(n - 1)
Closed(nm, n, b, m) ==
  CASE nm = "EFq" -> All(n)
    [] nm = "EpUq" -> All(n)
    [] nm = "EGp" -> {}
    [] nm = "EXq" -> ((m - 1)..(n - 2)) \cup (IF b >= m THEN {n - 1} ELSE {})
    [] nm = "EGq" -> IF b >= m THEN m..(n - 1) ELSE {}
    [] nm = "AFp" -> IF b < m THEN All(n) ELSE 0..(m - 1)
    [] nm = "AGFq" -> All(n)
    [] nm = "AFGq" -> IF b >= m THEN All(n) ELSE {}
    [] nm = "AGEFq" -> All(n)
    [] nm = "notEGq" -> All(n) \ (IF b >= m THEN m..(n - 1) ELSE {})
=============================================================================
