CONSTANTS
  MaxN = 2
  B = 4
  Mode = "path1"
SPECIFICATION Spec
INVARIANT AgreeLasso
CHECK_DEADLOCK FALSE
