CONSTANTS
  Nodes = {0, 1}
  AP = {"p"}
  MaxObjs = 1
  Mutators = TRUE
  Depth = 2
SPECIFICATION Spec
CONSTRAINT Bound
INVARIANT KripkeInv
CHECK_DEADLOCK FALSE
