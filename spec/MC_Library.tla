---- MODULE MC_Library ----
EXTENDS Library
P == <<"ap", "p">>  Q == <<"ap", "q">>
K1 == [n |-> 3, R |-> {<<0,1>>, <<1,2>>, <<2,2>>, <<2,0>>}, L |-> [s \in 0..2 |-> IF s = 0 THEN {"p"} ELSE IF s = 1 THEN {"q"} ELSE {"p", "q"}]]
K2 == [n |-> 2, R |-> {<<0,0>>, <<0,1>>, <<1,0>>}, L |-> [s \in 0..1 |-> IF s = 0 THEN {"p"} ELSE {}]]
K3 == [n |-> 3, R |-> {<<0,0>>, <<0,1>>, <<1,1>>, <<1,2>>, <<2,1>>}, L |-> [s \in 0..2 |-> IF s = 2 THEN {"q"} ELSE {"p"}]]
KPoolC == <<K1, K2, K3>>
FPoolC == << [logic |-> "CTL", f |-> <<"E", <<"U", P, Q>>>>],
             [logic |-> "CTL", f |-> <<"and", <<"A", <<"G", <<"E", <<"F", P>>>>>>>>, <<"not", Q>>>>],
             [logic |-> "LTL", f |-> <<"A", <<"G", <<"F", P>>>>>>],
             [logic |-> "LTL", f |-> <<"A", <<"imp", <<"X", Q>>, <<"U", P, Q>>>>>>],
             [logic |-> "CTLS", f |-> <<"A", <<"G", <<"or", Q, <<"E", <<"X", P>>>>>>>>>>],
             [logic |-> "CTLS", f |-> <<"and", <<"E", <<"F", <<"G", P>>>>>>, <<"E", <<"and", <<"X", P>>, <<"F", Q>>>>>>>>] >>
BadPoolC == << [logic |-> "LTL", f |-> <<"A", <<"F", <<"E", <<"G", P>>>>>>>>], [logic |-> "CTL", f |-> <<"A", <<"G", <<"F", P>>>>>>],
              [logic |-> "CTLS", f |-> <<"U", P, <<"X", Q>>>>], [logic |-> "CTL", f |-> <<"X", P>>], [logic |-> "LTL", f |-> <<"E", <<"F", P>>>>] >>
BadPoolQ == <<BadPoolC[1]>>
KPoolQ == <<K1, K2>>
FPoolQ == <<FPoolC[1], FPoolC[3], FPoolC[5]>>
====
