CONSTANTS
  MaxN = 2
  B = 4
  Mode = "ctl2"
SPECIFICATION Spec
INVARIANT AgreeCTL
INVARIANT Submodel
CHECK_DEADLOCK FALSE
