CONSTANTS
  FIXED = TRUE
  MaxN = 2
  Family <- FamT
  APs <- APsC
SPECIFICATION Spec
INVARIANT AnswerExact
INVARIANT AtomsConsistent
CHECK_DEADLOCK FALSE
