---------------------------- MODULE MC_Sem ----------------------------
(* R2: the oracle checked against itself.  For every Kripke structure of the scope and  *)
(* every formula of the family:                                                         *)
(*   AgreeCTL    SatCTL (fixpoints) = SatStar (tableau) on CTL state formulas           *)
(*   AgreeLasso  tableau ELTL = documentation semantics on lassos up to bound B         *)
(*   Laws        duality, expansion laws, Boolean laws are theorems of the semantics    *)
(*   FairAgree   tableau FairStates = SCC characterisation; trivially-true fairness     *)
(*               leaves the semantics unchanged on total structures                     *)
(*   Submodel    adding an unreachable state does not change answers on old states      *)
EXTENDS Semantics, SequencesExt
CONSTANTS MaxN,      \* Kripke structures with 1..MaxN states over {p,q}
          B,         \* lasso bound (stem + loop)
          Mode       \* "ctl1" | "ctl2" | "path1" | "path2" | "fair"
VARIABLE c
P == <<"ap", "p">>  Q == <<"ap", "q">>  Tr == <<"true">>  Fa == <<"false">>
L0 == {P, Q, Tr, Fa}
M0 == {P, Q}
CTLq(S) == {<<q, <<o, f>>>> : q \in {"A", "E"}, o \in {"X", "F", "G"}, f \in S}
           \cup {<<q, <<o, f, h>>>> : q \in {"A", "E"}, o \in {"U", "R"}, f \in S, h \in S}
Bool1(S) == {<<"not", f>> : f \in S} \cup {<<o, f, h>> : o \in {"or", "and", "imp"}, f \in S, h \in S}
CTL1 == L0 \cup CTLq(L0) \cup Bool1(L0)
\* depth 2 over a reduced leaf set, plus n-ary and/or
CTLM == M0 \cup CTLq(M0) \cup {<<"not", f>> : f \in M0}
CTL2 == CTL1 \cup CTLq(CTLM) \cup {<<"not", f>> : f \in CTLq(M0)}
        \cup {<<o, f, h, k>> : o \in {"or", "and"}, f \in M0, h \in CTLq({P}), k \in {Tr, Q}}
Un(S) == {<<o, f>> : o \in {"not", "X", "F", "G"}, f \in S}
Bi(S) == {<<o, f, h>> : o \in {"or", "and", "imp", "U", "R"}, f \in S, h \in S}
Path1 == L0 \cup Un(L0) \cup Bi(L0)
PM1 == Un(M0) \cup Bi(M0)
Path2 == Path1 \cup Un(PM1) \cup {<<o, f, h>> : o \in {"U", "R", "and", "or"}, f \in Un(M0), h \in M0 \cup Un(M0)}
         \cup {<<o, f, h>> : o \in {"U", "R"}, f \in M0, h \in Bi(M0)}
Ks == KripkesUpTo(MaxN, {"p", "q"})
Family == CASE Mode = "ctl1" -> CTL1
            [] Mode = "ctl2" -> CTL2 \ CTL1
            [] Mode = "path1" -> Path1
            [] Mode = "path2" -> Path2 \ Path1
            [] Mode = "fairq" -> M0 \cup CTLq(M0) \cup {<<q, g>> : q \in {"A", "E"}, g \in {<<"X", P>>, <<"F", <<"G", P>>>>, <<"G", <<"F", Q>>>>, <<"and", <<"F", P>>, <<"G", Q>>>>}}
            [] Mode = "fair" -> CTL1 \cup {<<q, g>> : q \in {"A", "E"}, g \in Un(M0) \cup Bi(M0)}
IsCtl == Mode \in {"ctl1", "ctl2"}
IsPath == Mode \in {"path1", "path2"}
\* two-level fan-out (first K, then f) so that TLC's workers share the evaluation
RECURSIVE AndAll(_)
AndAll(sq) == IF Len(sq) = 1 THEN sq[1] ELSE <<"and", sq[1], AndAll(Tail(sq))>>
Init == c = <<>>
Next == \/ c = <<>> /\ c' \in {<<k>> : k \in Ks}
        \/ Len(c) = 1 /\ c' \in {<<c[1], g>> : g \in Family}
Spec == Init /\ [][Next]_c
Full == Len(c) = 2
K == c[1]  f == c[2]
S == States(K)
AgreeCTL == (Full /\ IsCtl) => SatCTL(K, f) = SatStar(K, f)
AgreeLasso == (Full /\ IsPath) =>
                LET h == Elim(K, f) IN LassoSat(K, h, B) = ELTL(K, h, {})
\* semantic laws (C04/C05 rely on these being theorems)
Laws == (Full /\ IsCtl) =>
   /\ SatStar(K, <<"not", f>>) = S \ SatStar(K, f)
   /\ f[1] \in {"A", "E"} =>
        LET g == f[2]  dual == IF f[1] = "A" THEN "E" ELSE "A" IN
        /\ SatStar(K, f) = SatStar(K, <<"not", <<dual, <<"not", g>>>>>>)
        /\ (f[1] = "E" /\ g[1] = "U") =>
             SatStar(K, f) = SatStar(K, <<"or", g[3], <<"and", g[2], <<"E", <<"X", f>>>>>>>>)
        /\ (f[1] = "A" /\ g[1] = "U") =>
             SatStar(K, f) = SatStar(K, <<"or", g[3], <<"and", g[2], <<"A", <<"X", f>>>>>>>>)
        /\ (g[1] = "G") => SatStar(K, f) = SatStar(K, <<"and", g[2], <<f[1], <<"X", f>>>>>>)
        /\ (g[1] = "F") => SatStar(K, f) = SatStar(K, <<"or", g[2], <<f[1], <<"X", f>>>>>>)
        /\ (g[1] = "R") => SatStar(K, f) = SatStar(K, <<"and", g[3], <<"or", g[2], <<f[1], <<"X", f>>>>>>>>)
        /\ (g[1] = "R") => SatStar(K, f) = SatStar(K, <<f[1], <<"not", <<"U", <<"not", g[2]>>, <<"not", g[3]>>>>>>>>)
\* unreachable extra state: K2 = K plus a fresh state n with a self loop and an edge into 0
Extend(Kr) == [n |-> Kr.n + 1, R |-> Kr.R \cup {<<Kr.n, Kr.n>>, <<Kr.n, 0>>},
               L |-> [s \in 0..Kr.n |-> IF s = Kr.n THEN {"p"} ELSE Kr.L[s]]]
Submodel == (Full /\ IsCtl) => SatStar(Extend(K), f) \cap S = SatStar(K, f)
FairSets == {{}, {{}}, {S}, {{0}}} \cup (IF K.n > 1 THEN {{{1}}, {{0}, {1}}, {{0, 1}}} ELSE {})
FairAgree == (Full /\ Mode \in {"fair", "fairq"}) =>
   /\ \A Fc \in FairSets : FairStates(K, Fc) = FairStatesSCC(K, Fc)
   /\ SatFair(K, f, {}) = SatStar(K, f)
   /\ SatFair(K, f, {S}) = SatStar(K, f)
   \* fair E-quantifier = plain E of the conjunction with the LTL fairness formula /\ G F P
   /\ \A Fc \in FairSets : f[1] = "E" =>
        LET FS == FairStates(K, Fc)
            gE == ElimF(K, f[2], Fc, FS)
            gf == [i \in 1..Cardinality(Fc) |-> <<"G", <<"F", <<"set", SetToSeq(Fc)[i]>>>>>>]
        IN ELTL(K, gE, Fc) = ELTL(K, AndAll(<<gE>> \o gf), {})
=======================================================================
