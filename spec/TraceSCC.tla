--------------------------- MODULE TraceSCC ---------------------------
(* Layer-B binding for C12: action-level trace validation of compute_SCCs against        *)
(* SCCAlgo.  The harness passes a recording DiGraph subclass to the real routine; the    *)
(* sequence of elements it draws from nodes() and from the DFS iterators of next(v) IS   *)
(* the schedule, logged as micro-events                                                  *)
(*   {trace, i:0, ev:"graph", n, E}       a new run                                      *)
(*   {ev:"root", s}                       the outer loop reaches s          -> StartRoot(s) *)
(*   {ev:"adv", v, w}                     v's iterator yields w             -> Advance(w)   *)
(*   {ev:"exh", v}                        v's iterator is exhausted         -> Backtrack    *)
(*   {ev:"end", emitted:[[..],..]}        the components the routine yielded, in order   *)
(* Each event must be an ENABLED step of the corresponding SCCAlgo action (the unlogged   *)
(* variables disc/low/inScc/sccStack/time are inferred by the action), and at "end" the   *)
(* specification's emitted sequence must equal the code's, component by component and in  *)
(* the same internal order.  A mismatch is reported as mechanism drift (diagnostic: the   *)
(* property verdict comes from TraceGraph).                                              *)
EXTENDS SCCAlgo, Json, IOUtils, TLCExt
TraceLog == ndJsonDeserialize(IOEnv.TRACE_FILE)
VARIABLES l, fails, broken
ToSet(seq) == {seq[i] : i \in 1..Len(seq)}
Top == dfs[Len(dfs)]
ResetTo(e) == /\ E' = {<<p[1], p[2]>> : p \in ToSet(e.E)}
              /\ disc' = [v \in Nodes |-> Undef] /\ low' = [v \in Nodes |-> Undef]
              /\ inScc' = {} /\ sccStack' = <<>> /\ dfs' = <<>> /\ time' = 0
              /\ roots' = Nodes /\ emitted' = <<>> /\ pc' = "outer"
Matches(e) ==
  CASE e.ev = "root" -> pc = "outer" /\ e.s \in roots
    [] e.ev = "adv"  -> pc = "inner" /\ dfs # <<>> /\ Top.v = e.v /\ e.w \in Top.todo
    [] e.ev = "exh"  -> pc = "inner" /\ dfs # <<>> /\ Top.v = e.v /\ Top.todo = {}
    [] e.ev = "end"  -> pc = "outer" /\ dfs = <<>> /\ emitted = e.emitted
    [] OTHER -> TRUE
Act(e) ==
  CASE e.ev = "graph" -> ResetTo(e)
    [] e.ev = "root" -> StartRoot(e.s)
    [] e.ev = "adv"  -> Advance(e.w)
    [] e.ev = "exh"  -> Backtrack
    [] OTHER -> UNCHANGED vars
TInit == /\ l = 1 /\ fails = <<>> /\ broken = FALSE
         /\ E = {} /\ disc = [v \in Nodes |-> Undef] /\ low = [v \in Nodes |-> Undef]
         /\ inScc = {} /\ sccStack = <<>> /\ dfs = <<>> /\ time = 0
         /\ roots = Nodes /\ emitted = <<>> /\ pc = "outer"
TNext == /\ l <= Len(TraceLog)
         /\ LET e == TraceLog[l]
                fresh == e.ev = "graph"
                skip == broken /\ ~fresh
            IN IF skip THEN UNCHANGED <<vars, fails, broken>>
               ELSE IF Matches(e) THEN Act(e) /\ broken' = FALSE /\ UNCHANGED fails
               ELSE /\ fails' = Append(fails, [tid |-> e.tid, v |-> "drift:" \o e.ev])
                    /\ broken' = TRUE /\ UNCHANGED vars
         /\ l' = l + 1
TSpec == TInit /\ [][TNext]_<<vars, l, fails, broken>>
Done2 == (l = Len(TraceLog) + 1) => JsonSerialize(IOEnv.OUT_FILE, [n |-> Len(TraceLog), fails |-> fails])
TPost == TLCGet("stats").diameter = Len(TraceLog) + 1
=======================================================================
