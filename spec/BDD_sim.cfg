CONSTANTS
  Order <- Order3
  Handles = {h1, h2, h3, h4, h5}
  MaxNodes = 40
  GCMode = "refcount"
  Depth = 14
SPECIFICATION Spec
INVARIANT Emit
INVARIANT Unique
INVARIANT Canonical
CHECK_DEADLOCK FALSE
