---- MODULE MC_CTLAlgo ----
EXTENDS CTLAlgo
\* nested formulas over state atoms "0","1": exercises memo sharing between repeated subformulas
A0 == <<"ap", "0">>  A1 == <<"ap", "1">>
Fam2 == {<<q, <<o, <<r, <<"G", A0>>>>, <<"E", <<"U", A1, <<r, <<"G", A0>>>>>>>>>>>> : q \in {"A", "E"}, o \in {"U", "R"}, r \in {"A", "E"}}
        \cup {<<"and", <<"A", <<"F", A0>>>>, <<"not", <<"A", <<"F", A0>>>>>>, <<"E", <<"X", <<"A", <<"F", A0>>>>>>>>>>}
====
