-------------------------- MODULE TraceSyntax --------------------------
(* Code -> spec: total-verdict validation of the syntactic layer (C08 - C11).            *)
(*  construct {lang, f, out:{tree,lang,kind}|{exc}}       build f bottom-up with lang's own classes  *)
(*  cast      {src, dst, f, out}                          build in src, cast_to(dst)                  *)
(*  mcguard   {logic, f, kripke:bool, out:{set:1}|{exc}}  hand f (a CTL* object / text) to modelcheck *)
(*  roundtrip {lang, f, toks, out:{tree,lang}|{exc}}      Parser()(str(f))                            *)
(*  collide   {lang, f, g}                                two formulas that print identically        *)
(*  parse     {lang, toks, len, out:{tree,lang}|{exc,pos}} Parser()(text)                            *)
(*  eq        {lang, f, g, e12, e21, h, setsize, key}     ==, hash, set/dict behaviour               *)
(*  trans     {f, g, h, e12, e23, e13}   clone {f, g, shared, e}   bool {b, e1, e2}                   *)
EXTENDS Syntax, Json, IOUtils, TLCExt
TraceLog == ndJsonDeserialize(IOEnv.TRACE_FILE)
VARIABLES l, fails, drift
Has(e, k) == k \in DOMAIN e
ParserErrors == {"UnexpectedToken", "UnexpectedCharacters"}
Verdict(e) ==
  CASE e.op = "construct" ->
         LET k == KindIn(e.lang, e.f) IN
         IF k = "none" THEN (IF Has(e.out, "exc") /\ e.out.exc \in {"TypeError", "nosymbol"} THEN "ok"
                             ELSE IF Has(e.out, "exc") THEN "violation:wrong-exception " \o e.out.exc
                             \* KF-5 (named deviation): every temporal class subclasses PL.Formula, so a PL constructor
                             \* takes operand OBJECTS of LTL/CTL/CTL* classes as they are, without casting them
                             ELSE IF e.lang = "PL" /\ Has(e, "sub_lang") /\ e.out.tree = e.f /\ e.out.lang = "PL" THEN "known:KF-5"
                             ELSE "violation:accepted-out-of-logic")
         ELSE IF Has(e.out, "exc") THEN "violation:rejected-formula-of-logic " \o e.out.exc
         ELSE IF e.out.tree # e.f THEN "violation:tree-changed"
         ELSE IF e.out.lang # e.lang THEN "violation:wrong-module"
         ELSE IF e.out.kind \notin {k, "unknown"} THEN "violation:kind"
         ELSE "ok"
    [] e.op = "cast" ->
         LET k == KindIn(e.dst, e.f) IN
         IF k = "none" THEN (IF Has(e.out, "exc") /\ e.out.exc = "TypeError" THEN "ok"
                             ELSE IF Has(e.out, "exc") THEN "violation:wrong-exception " \o e.out.exc
                             ELSE "violation:cast-accepted-out-of-logic")
         ELSE IF Has(e.out, "exc") THEN "violation:cast-rejected-formula-of-logic " \o e.out.exc
         ELSE IF e.out.tree # e.f THEN "violation:tree-changed"
         ELSE IF e.out.lang # e.dst THEN "violation:wrong-module"
         ELSE IF e.out.kind \notin {k, "unknown"} THEN "violation:kind"
         ELSE "ok"
    [] e.op = "mcguard" ->
         IF e.kripke /\ KindIn(e.logic, e.f) = "state" THEN
              (IF Has(e.out, "exc") THEN "violation:modelcheck-rejected-state-formula " \o e.out.exc ELSE "ok")
         ELSE (IF Has(e.out, "exc") /\ e.out.exc = "TypeError" THEN "ok"
               \* text outside the logic is rejected by the logic's parser (C10 decides how)
               ELSE IF Has(e.out, "exc") /\ Has(e, "mode") /\ e.mode = "text" /\ e.out.exc \in ParserErrors THEN "ok"
               ELSE IF Has(e.out, "exc") THEN "violation:wrong-exception " \o e.out.exc
               ELSE "violation:modelcheck-accepted")
    [] e.op = "roundtrip" ->
         IF Has(e.out, "exc") THEN "violation:reparse-failed " \o e.out.exc
         ELSE IF e.out.tree # e.f THEN "violation:roundtrip-tree"
         ELSE IF e.out.lang # e.lang THEN "violation:roundtrip-logic"
         ELSE "ok"
    [] e.op = "collide" -> IF e.f = e.g THEN "ok" ELSE "violation:different-trees-print-identically"
    [] e.op = "parse" ->
         IF Has(e.out, "exc") THEN
              (IF e.out.exc \notin ParserErrors THEN "violation:wrong-exception " \o e.out.exc
               ELSE IF ~(0 <= e.out.pos /\ e.out.pos <= e.len) THEN "violation:error-position"
               ELSE "ok")
         ELSE IF ~WellFormed(e.out.tree) THEN "violation:malformed-tree"
         ELSE IF e.out.lang # e.lang THEN "violation:formula-of-another-logic"
         ELSE IF KindIn(e.lang, e.out.tree) = "none" THEN "violation:tree-not-in-logic"
         ELSE IF e.out.tree \notin Derives(e.lang, e.toks) THEN "violation:accepted-outside-grammar"
         ELSE "ok"
    [] e.op = "eq" ->
         LET same == e.f = e.g IN
         IF e.e12 # same \/ e.e21 # same THEN "violation:eq"
         ELSE IF same /\ ~e.h THEN "violation:hash"
         ELSE IF e.setsize # (IF same THEN 1 ELSE 2) THEN "violation:set-key"
         ELSE IF e.key # same THEN "violation:dict-key"
         ELSE IF ~e.refl THEN "violation:reflexive"
         ELSE "ok"
    [] e.op = "trans" -> IF e.e12 /\ e.e23 /\ ~e.e13 THEN "violation:transitive" ELSE "ok"
    [] e.op = "clone" -> IF Has(e, "exc") THEN "violation:clone-raised " \o e.exc
                         ELSE IF e.g # e.f THEN "violation:clone-tree"
                         ELSE IF ~e.e THEN "violation:clone-not-equal"
                         ELSE IF e.shared # 0 THEN "violation:clone-shares-nodes"
                         ELSE IF e.lang2 # e.lang THEN "violation:clone-logic"
                         ELSE "ok"
    [] e.op = "bool" -> IF e.e1 /\ e.e2 /\ ~e.x1 /\ ~e.x2 THEN "ok" ELSE "violation:bool-eq"
\* binding diagnostic: the printed tokens are the transcription's
Drift(e) == e.op = "roundtrip" /\ Has(e, "toks") /\ e.toks # Pr("ctls", e.f)
Init == l = 1 /\ fails = <<>> /\ drift = 0
Next == /\ l <= Len(TraceLog)
        /\ LET e == TraceLog[l]  v == Verdict(e) IN
           /\ fails' = IF v = "ok" THEN fails ELSE Append(fails, [tid |-> e.tid, v |-> v])
           /\ drift' = IF Drift(e) THEN drift + 1 ELSE drift
        /\ l' = l + 1
Spec == Init /\ [][Next]_<<l, fails, drift>>
Done == (l = Len(TraceLog) + 1) => JsonSerialize(IOEnv.OUT_FILE, [n |-> Len(TraceLog), fails |-> fails, drift |-> drift])
Post == TLCGet("stats").diameter = Len(TraceLog) + 1
=========================================================================
