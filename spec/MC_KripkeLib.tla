---- MODULE MC_KripkeLib ----
EXTENDS KripkeLib
====
