CONSTANTS
  Order <- NoOrder
  Handles = {h1}
  MaxNodes = 1
  GCMode = "refcount"
  Depth = 0
SPECIFICATION TSpec
INVARIANT Done
POSTCONDITION TPost
CHECK_DEADLOCK FALSE
