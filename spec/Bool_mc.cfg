CONSTANTS
  VarsC = {"a", "b", "c"}
SPECIFICATION Spec
INVARIANT RobddOK
INVARIANT Canon
CHECK_DEADLOCK FALSE
