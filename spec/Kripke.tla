---------------------------- MODULE Kripke ----------------------------
(* Values and declarative operators for directed graphs and Kripke structures.          *)
(* A Kripke value is a record [n, R, L] (states are 0..n-1, R a set of pairs, L a       *)
(* function from states to sets of atom names); the harness keeps the bijection between *)
(* 0..n-1 and the caller's state objects.  A digraph value is [V, E].                   *)
EXTENDS Naturals, Sequences, FiniteSets, TLC

States(K) == 0..(K.n - 1)
Img(K, X) == {t \in States(K) : \E s \in X : <<s, t>> \in K.R}
Pre(K, X)  == {s \in States(K) : \E t \in X : <<s, t>> \in K.R}
Total(K)   == \A s \in States(K) : \E t \in States(K) : <<s, t>> \in K.R

RECURSIVE FwdK(_, _)
FwdK(K, X) == LET X2 == X \cup Img(K, X) IN IF X2 = X THEN X ELSE FwdK(K, X2)
RECURSIVE BackK(_, _)
BackK(K, X) == LET X2 == X \cup Pre(K, X) IN IF X2 = X THEN X ELSE BackK(K, X2)

\* strongly connected components as the quotient by mutual reachability
SCCsK(K) == {{t \in States(K) : t \in FwdK(K, {s}) /\ s \in FwdK(K, {t})} : s \in States(K)}
NonTrivialK(K, C) == Cardinality(C) >= 2 \/ \E v \in C : <<v, v>> \in K.R

\* documented meaning of get_fair_states(F): states from which some infinite path visits
\* every P \in Fc infinitely often = backward closure of the non-trivial SCCs meeting all P
FairStatesSCC(K, Fc) ==
  LET good == {C \in SCCsK(K) : NonTrivialK(K, C) /\ \A P \in Fc : C \cap P # {}}
  IN BackK(K, UNION good)

\* all total Kripke structures with exactly n states over the atom set AP
KripkesOfSize(n, AP) ==
  {[n |-> n, R |-> R, L |-> L] :
     R \in {r \in SUBSET ((0..(n-1)) \X (0..(n-1))) : \A s \in 0..(n-1) : \E t \in 0..(n-1) : <<s, t>> \in r},
     L \in [0..(n-1) -> SUBSET AP]}
KripkesUpTo(maxn, AP) == UNION {KripkesOfSize(n, AP) : n \in 1..maxn}

\* ---- plain digraphs: [V |-> set, E |-> set of pairs over V]
GSucc(G, X) == {w \in G.V : \E v \in X : <<v, w>> \in G.E}
RECURSIVE GReach(_, _)
GReach(G, X) == LET X2 == X \cup GSucc(G, X) IN IF X2 = X THEN X ELSE GReach(G, X2)
GReverse(G) == [V |-> G.V, E |-> {<<e[2], e[1]>> : e \in G.E}]
GInduced(G, X) == [V |-> G.V \cap X, E |-> {e \in G.E : e[1] \in X /\ e[2] \in X}]
GSCCs(G) == {{t \in G.V : t \in GReach(G, {s}) /\ s \in GReach(G, {t})} : s \in G.V}
=======================================================================
