CONSTANTS
  MaxN = 2
  Mode = "normal"
SPECIFICATION Spec
INVARIANT ElimExact
INVARIANT CallerIntact
INVARIANT FreshIsFresh
CHECK_DEADLOCK FALSE
