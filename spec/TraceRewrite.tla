------------------------- MODULE TraceRewrite -------------------------
(* Code -> spec: validation of the library's rewriting functions (C05).                  *)
(*  {tid, op:"restrict", logic, kind:"state"|"path", f, g}   g = f.get_equivalent_restricted_formula() *)
(*  {tid, op:"lnot", kind, f, g}                              g = LNot(f)                 *)
(* Clauses: (a) g is in the restricted alphabet documented for the logic (syntactic),    *)
(* (b) g is satisfied by exactly the same states of every Kripke structure of the small  *)
(* scope (state formulas) / the same lasso paths up to the length bound (path formulas), *)
(* (c) LNot(f) is equivalent to `not f` and does not begin with two negations.           *)
(* The transcription Formulas!RestrictCTL / RestrictCTLS is a binding diagnostic only.   *)
EXTENDS Semantics, Formulas, Json, IOUtils, TLCExt
CONSTANTS ScopeN, LassoB
TraceLog == ndJsonDeserialize(IOEnv.TRACE_FILE)
VARIABLES l, fails, drift
AP2 == {"p", "q"}
SmallKs == KripkesUpTo(ScopeN, AP2)
\* ultimately periodic words over 2^AP2 as line-shaped structures: positions 0..m-1, loop to ls-1
Lassos == UNION {{[K |-> [n |-> m, R |-> {<<i, i+1>> : i \in 0..(m-2)} \cup {<<m-1, ls-1>>}, L |-> L], m |-> m, ls |-> ls] :
                    L \in [0..(m-1) -> SUBSET AP2], ls \in 1..m} : m \in 1..LassoB}
Ident(m) == [i \in 1..m |-> i - 1]
PathHolds(z, h) == PH(Ident(z.m), z.m, z.ls, 1, Elim(z.K, h))
RECURSIVE HasQuantifier(_)
HasQuantifier(f) == f[1] \in {"A", "E"} \/ (~IsLeaf(f) /\ \E x \in FArgs(f) : HasQuantifier(x))
EquivState(f, g) == \A K \in SmallKs : SatStar(K, f) = SatStar(K, g)
\* path formulas: the same lasso words; with nested quantifiers additionally the same E/A sets on every structure
EquivPath(f, g) == /\ (~HasQuantifier(f) /\ ~HasQuantifier(g)) => \A z \in Lassos : PathHolds(z, f) = PathHolds(z, g)
                   /\ \A K \in SmallKs : /\ SatStar(K, <<"E", f>>) = SatStar(K, <<"E", g>>)
                                         /\ SatStar(K, <<"A", f>>) = SatStar(K, <<"A", g>>)
Equiv(kind, f, g) == IF kind = "state" THEN EquivState(f, g) ELSE EquivPath(f, g)
RECURSIVE InRestrictedLTL(_)
InRestrictedLTL(f) == IsLeaf(f) \/ (f[1] \in {"not", "or", "X", "U"} /\ \A x \in FArgs(f) : InRestrictedLTL(x))
InAlphabet(logic, g) == CASE logic = "CTL" -> InRestrictedCTL(g)
                          [] logic = "LTL" -> InRestrictedLTL(g)
                          [] logic = "CTLS" -> InRestrictedCTLS(g)
Has(e, k) == k \in DOMAIN e
Verdict(e) ==
  IF Has(e, "exc") THEN "violation:exception " \o e.exc
  ELSE IF ~WellFormed(e.g) THEN "violation:malformed-result"
  ELSE IF e.op = "restrict" THEN
       IF ~InAlphabet(e.logic, e.g) THEN "violation:alphabet"
       ELSE IF ~Equiv(e.kind, e.f, e.g) THEN "violation:not-equivalent"
       ELSE "ok"
  ELSE IF StartsWithTwoNots(e.g) THEN "violation:lnot-two-negations"
       ELSE IF ~Equiv(e.kind, <<"not", e.f>>, e.g) THEN "violation:lnot-not-equivalent"
       ELSE "ok"
Drift(e) == ~Has(e, "exc") /\ e.g # (IF e.op = "lnot" THEN LNot(e.f) ELSE IF e.logic = "CTL" THEN RestrictCTL(e.f) ELSE RestrictCTLS(e.f))
Init == l = 1 /\ fails = <<>> /\ drift = 0
Next == /\ l <= Len(TraceLog)
        /\ LET e == TraceLog[l]  v == Verdict(e) IN
           /\ fails' = IF v = "ok" THEN fails ELSE Append(fails, [tid |-> e.tid, v |-> v])
           /\ drift' = IF Drift(e) THEN drift + 1 ELSE drift
        /\ l' = l + 1
Spec == Init /\ [][Next]_<<l, fails, drift>>
Done == (l = Len(TraceLog) + 1) => JsonSerialize(IOEnv.OUT_FILE, [n |-> Len(TraceLog), fails |-> fails, uncert |-> <<>>, drift |-> drift])
Post == TLCGet("stats").diameter = Len(TraceLog) + 1
=======================================================================
