--------------------------- MODULE CTLAlgo ---------------------------
(* Layer B: CTL/model_checking.py as coded.  _checkStateFormula labels subformulas into  *)
(* a memo table; E X / E U / E G are computed with graph operations (induced subgraph,   *)
(* reversal, extra edges, forward reachability, SCCs) and every other operator is routed *)
(* through get_equivalent_restricted_formula.  The model labels the subformulas of the   *)
(* input in ANY bottom-up order (the memo makes the order immaterial; TLC checks that)   *)
(* and must agree with the fixpoint semantics SatCTL for every graph and operand sets.   *)
EXTENDS Semantics, Formulas
CONSTANTS MaxN, Family2
VARIABLES c, memo
vars == <<c, memo>>
AsG(K) == [V |-> States(K), E |-> K.R]
\* _checkEX: sources of transitions whose destination is labelled
EXcode(K, A) == {e[1] : e \in {x \in K.R : x[2] \in A}}
\* _checkEU: reversed subgraph induced by A, plus reversed edges from A into B, plus the nodes of
\* B; forward reachability from B
EUcode(K, A, B) ==
  LET sub == GReverse(GInduced(AsG(K), A))
      extra == {<<e[2], e[1]>> : e \in {x \in K.R : x[1] \in A /\ x[2] \in B}}
      G2 == [V |-> sub.V \cup {e[1] : e \in extra} \cup {e[2] : e \in extra} \cup B, E |-> sub.E \cup extra]
  IN GReach(G2, B)
\* _checkEG: non-trivial SCCs of the reversed induced subgraph, then reachability inside it
EGcode(K, A) ==
  LET sub == GReverse(GInduced(AsG(K), A))
      T == UNION {C \in GSCCs(sub) : Cardinality(C) > 1 \/ \E v \in C : <<v, v>> \in sub.E}
  IN GReach(sub, T)
\* which subformulas _checkStateFormula visits: the formula's own children for not/or and the
\* core E-pairs, otherwise the restricted rewriting
Core(f) == \/ IsLeaf(f) \/ f[1] \in {"not", "or"}
           \/ (f[1] = "E" /\ f[2][1] \in {"G", "U", "X"})
Children(f) == IF IsLeaf(f) THEN {}
               ELSE IF f[1] \in {"not", "or"} THEN FArgs(f)
               ELSE IF f[1] = "E" /\ f[2][1] \in {"G", "U", "X"} THEN FArgs(f[2])
               ELSE {RestrictCTL(f)}
RECURSIVE Visited(_)
Visited(F) == LET F2 == F \cup UNION {Children(f) : f \in F} IN IF F2 = F THEN F ELSE Visited(F2)
K == c[1]  f0 == c[2]
S == States(K)
LabelOf(f) == LET t == f[1] IN
  CASE t = "ap" -> {s \in S : f[2] \in K.L[s]}
    [] t = "true" -> S
    [] t = "false" -> {}
    [] t = "not" -> {v \in S : v \notin memo[f[2]]}
    [] t = "or" -> UNION {memo[x] : x \in FArgs(f)}
    [] t = "E" /\ f[2][1] = "X" -> EXcode(K, memo[f[2][2]])
    [] t = "E" /\ f[2][1] = "U" -> EUcode(K, memo[f[2][2]], memo[f[2][3]])
    [] t = "E" /\ f[2][1] = "G" -> EGcode(K, memo[f[2][2]])
    [] OTHER -> memo[RestrictCTL(f)]
P == <<"ap", "p">>  Q == <<"ap", "q">>
\* operand-set-complete family: one atom per state, operands = all subsets as disjunctions
SetF(X, n) == IF X = {} THEN Fa ELSE IF X = 0..(n-1) THEN Tr
              ELSE IF Cardinality(X) = 1 THEN <<"ap", ToString(CHOOSE x \in X : TRUE)>>
              ELSE <<"or">> \o [i \in 1..Cardinality(X) |-> <<"ap", ToString(CHOOSE x \in X : Cardinality({y \in X : y < x}) = i - 1)>>]
OpFamily(n) ==
  LET Sets == {SetF(X, n) : X \in SUBSET (0..(n-1))} IN
  {<<q, <<o, a>>>> : q \in {"A", "E"}, o \in {"X", "F", "G"}, a \in Sets}
  \cup {<<q, <<o, a, b>>>> : q \in {"A", "E"}, o \in {"U", "R"}, a \in Sets, b \in Sets}
  \cup {<<o, a, b>> : o \in {"and", "imp"}, a \in Sets, b \in Sets}
StateLabelled(n) == {[n |-> n, R |-> R, L |-> [s \in 0..(n-1) |-> {ToString(s)}]] :
     R \in {r \in SUBSET ((0..(n-1)) \X (0..(n-1))) : \A s \in 0..(n-1) : \E t \in 0..(n-1) : <<s, t>> \in r}}
Inputs == UNION {{<<k>> : k \in StateLabelled(n)} : n \in 1..MaxN}
Init == c = <<>> /\ memo = <<>>
Pick == \/ c = <<>> /\ c' \in Inputs /\ UNCHANGED memo
        \/ Len(c) = 1 /\ c' \in {<<c[1], g>> : g \in OpFamily(c[1].n) \cup Family2} /\ UNCHANGED memo
Label(f) == /\ Len(c) = 2 /\ f \in Visited({f0}) /\ f \notin DOMAIN memo
            /\ Children(f) \subseteq DOMAIN memo
            /\ memo' = [x \in DOMAIN memo \cup {f} |-> IF x = f THEN LabelOf(f) ELSE memo[x]]
            /\ UNCHANGED c
Next == Pick \/ \E f \in (IF Len(c) = 2 THEN Visited({f0}) ELSE {}) : Label(f)
Spec == Init /\ [][Next]_vars /\ WF_vars(Next)
\* every memo entry is the exact satisfaction set (not only the final answer)
MemoExact == Len(c) = 2 => \A k \in DOMAIN memo : memo[k] = SatCTL(K, k)
\* the answer is eventually produced (the recursion terminates: the visited set is finite and acyclic)
Terminates == <>[](Len(c) = 2 /\ f0 \in DOMAIN memo)
=======================================================================
