CONSTANTS
  MaxN = 2
  Mode = "bad"
SPECIFICATION Spec
INVARIANT BadReductions
CHECK_DEADLOCK FALSE
