CONSTANTS
  KPool <- KPoolQ
  FPool <- FPoolQ
  BadPool <- BadPoolQ
  MaxRes = 2
  Depth = 2
SPECIFICATION Spec
CONSTRAINT Bound
PROPERTY FreshResult
PROPERTY ResultOwned
PROPERTY AnswerStable
PROPERTY OnlyEditsChangeK
CHECK_DEADLOCK FALSE
