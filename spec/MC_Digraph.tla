---- MODULE MC_Digraph ----
EXTENDS Digraph
====
