--------------------------- MODULE AsCoded ---------------------------
(* Layer B, fairness: what the code at the pinned commit (plus the "fix:" commits)       *)
(* computes for calls with fairness constraints, transcribed at the level of satisfaction *)
(* sets.  Each deviation from the documented fair semantics is a NAMED operator, and the  *)
(* composition below is used ONLY to decide whether a wrong answer is one of the listed   *)
(* known findings (DESIGN 2.5); the expected value always comes from SatFair.             *)
(*   KF-1  kripke.py get_fair_states: an SCC counts as fair only if it has >= 2 nodes     *)
(*         AND its first-emitted node has a self-loop (`len(scc) == 1 or ...`; `and` was  *)
(*         meant).  Which node is emitted first depends on the DFS order: nondeterministic *)
(*         here.                                                                          *)
(*   KF-2  CTL/language.py: fair EG is reduced to plain EG(f and fair) (affects EG, AF,   *)
(*         AU, ER): lives inside NonFairCTL (module Formulas).                            *)
(*   KF-3  CTL*: fresh atoms of quantified subformulas are conjoined with `fair`, the     *)
(*         A/E fallbacks are evaluated over ALL paths;  LTL: `fair and ...` at the first  *)
(*         state only, tableau not restricted to fair paths.                              *)
EXTENDS Semantics, Formulas
\* ---- KF-1
PossibleFS_KF1(K, Fc) ==
   LET cand == {C \in SCCsK(K) : Cardinality(C) >= 2 /\ \A P \in Fc : C \cap P # {}}
       must == {C \in cand : \A v \in C : <<v, v>> \in K.R}
       may  == {C \in cand : \E v \in C : <<v, v>> \in K.R}
   IN {BackK(K, UNION Ch) : Ch \in {X \in SUBSET may : must \subseteq X}}
\* label_fair_states: first of fair, fair0, fair1, .. that labels no state of K
AllLabels(K) == UNION {K.L[s] : s \in States(K)}
FairName(K) == IF "fair" \notin AllLabels(K) THEN "fair"
               ELSE "fair" \o ToString(CHOOSE i \in 0..20 : ("fair" \o ToString(i)) \notin AllLabels(K)
                                        /\ \A j \in 0..(i-1) : i = 0 \/ ("fair" \o ToString(j)) \in AllLabels(K))
WithFair(K, FS) == [K EXCEPT !.L = [s \in States(K) |-> IF s \in FS THEN K.L[s] \cup {FairName(K)} ELSE K.L[s]]]
FA(K) == <<"ap", FairName(K)>>
\* ---- CTL.modelcheck(K, f, F)
AsCodedCTL_FS(K, f, FS) == SatStar(WithFair(K, FS), NonFairCTL(f, FA(K)))
AsCodedCTL(K, f, Fc) == {AsCodedCTL_FS(K, f, FS) : FS \in PossibleFS_KF1(K, Fc)}
\* ---- LTL.modelcheck(K, A g, F)   (after fix F7)
AsCodedLTL_FS(K, f, FS) == States(K) \ SatStar(WithFair(K, FS), <<"E", And2(FA(K), NonFairCTLS(LNot(f[2]), FA(K)))>>)
AsCodedLTL(K, f, Fc) == {AsCodedLTL_FS(K, f, FS) : FS \in PossibleFS_KF1(K, Fc)}
\* ---- CTLS.modelcheck(K, f, F): innermost-first elimination threading the labelled clone
RECURSIVE IsProp(_)
IsProp(f) == IsLeaf(f) \/ (f[1] \in BoolOps /\ \A x \in FArgs(f) : IsProp(x))
IsCTLShape(g) == g[1] \in TempOps /\ \A x \in FArgs(g) : IsProp(x)
Label(K, X, name) == [K EXCEPT !.L = [s \in States(K) |-> IF s \in X THEN K.L[s] \cup {name} ELSE K.L[s]]]
RECURSIVE Remove(_, _, _), RemoveArgs(_, _, _, _), CheckQ(_, _, _)
\* returns [k |-> labelled structure, f |-> formula with quantified subformulas replaced by fresh atoms]
Remove(Kc, f, fa) ==
   IF IsLeaf(f) THEN [k |-> Kc, f |-> f]
   ELSE IF f[1] \in {"A", "E"} THEN
        LET c == CheckQ(Kc, f, fa)  name == "[" \o ToString(f) \o "]" IN
        [k |-> Label(c.k, c.sts, name), f |-> <<"ap", name>>]
   ELSE LET r == RemoveArgs(Kc, f, fa, 2) IN [k |-> r.k, f |-> <<f[1]>> \o r.fs]
\* left-to-right over the arguments i..Len(f), threading the structure
RemoveArgs(Kc, f, fa, i) ==
   IF i > Len(f) THEN [k |-> Kc, fs |-> <<>>]
   ELSE LET r1 == Remove(Kc, f[i], fa)
            r2 == RemoveArgs(r1.k, f, fa, i + 1)
        IN [k |-> r2.k, fs |-> <<r1.f>> \o r2.fs]
CheckQ(Kc, q, fa) ==
   LET r == Remove(Kc, q[2], fa)
       g1 == r.f
       K1 == r.k
       sts == IF IsCTLShape(g1) THEN SatStar(K1, NonFairCTL(<<q[1], g1>>, fa))
              ELSE LET sf == NonFairCTLS(g1, fa) IN
                   IF q[1] = "A" THEN SatStar(K1, <<"A", Nt(And2(LNot(sf), fa))>>)
                                 ELSE SatStar(K1, <<"E", And2(fa, sf)>>)
   IN [k |-> K1, sts |-> sts]
AsCodedCTLS_FS(K, f, FS) == LET fa == FA(K)  r == Remove(WithFair(K, FS), f, fa) IN SatStar(r.k, NonFairCTLS(r.f, fa))
AsCodedCTLS(K, f, Fc) == {AsCodedCTLS_FS(K, f, FS) : FS \in PossibleFS_KF1(K, Fc)}
AsCoded(logic, K, f, Fc) == CASE logic = "CTL" -> AsCodedCTL(K, f, Fc)
                              [] logic = "LTL" -> AsCodedLTL(K, f, Fc)
                              [] logic = "CTLS" -> AsCodedCTLS(K, f, Fc)
\* the same with KF-1 switched off (documented fair states): isolates KF-2 / KF-3
AsCodedNoKF1(logic, K, f, Fc) ==
   LET FS == FairStatesSCC(K, Fc) IN
   CASE logic = "CTL" -> AsCodedCTL_FS(K, f, FS)
     [] logic = "LTL" -> AsCodedLTL_FS(K, f, FS)
     [] logic = "CTLS" -> AsCodedCTLS_FS(K, f, FS)
=======================================================================
