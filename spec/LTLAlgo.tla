--------------------------- MODULE LTLAlgo ---------------------------
(* Layer B: LTL/model_checking.py as coded - closure (_get_closure), atom construction   *)
(* (_build_atoms: the closure is processed in sorted order of height; formulas of equal  *)
(* key are processed in set-iteration order, i.e. string-hash order, which the model     *)
(* leaves NONDETERMINISTIC), the tableau graph, non-trivial self-fulfilling SCCs and the *)
(* answer of _checkE_path_formula.  TLC explores every processing order and checks that  *)
(* the answer is the exact satisfaction set of E g and that atoms are locally consistent.*)
(* FIXED = FALSE is the code at the pinned commit (defects F1, F2: DESIGN section 6);    *)
(* FIXED = TRUE is the code after the two "fix:" commits.                                *)
EXTENDS Semantics, Formulas
CONSTANTS FIXED, MaxN, Family, APs
VARIABLES K, g, todo, atoms, phase
vars == <<K, g, todo, atoms, phase>>
Xf(f) == <<"X", f>>
IsNotX(f) == f[1] = "not" /\ f[2][1] = "X"
Key(f) == IF IsNotX(f) THEN Height(f) - 1 ELSE Height(f)
\* _get_closure as a least fixpoint
Step(f) == {LNot(f)} \cup
           (CASE f[1] = "X" -> {f[2]}
              [] IsNotX(f) -> {Xf(LNot(f[2][2]))}
              [] f[1] = "or" -> FArgs(f)
              [] f[1] = "U" -> {f[2], f[3], Xf(f)}
              [] OTHER -> {})
RECURSIVE Close(_)
Close(C) == LET C2 == C \cup UNION {Step(f) : f \in C} IN IF C2 = C THEN C ELSE Close(C2)
Closure == Close({g})
\* one atom = [s |-> state, fs |-> set of formulas]
Add(a, F) == [a EXCEPT !.fs = @ \cup F]
\* the five specific cases of the loop body, for one atom; returns the atoms it becomes
Specific(a, phi) ==
  LET neg == LNot(phi) IN
  CASE phi[1] \in {"true", "false"} ->
         IF FIXED THEN {IF phi = Tr THEN Add(a, {phi}) ELSE Add(a, {neg})} ELSE {Add(a, {phi})}
    [] phi[1] = "ap" -> {IF phi[2] \in K.L[a.s] THEN Add(a, {phi}) ELSE Add(a, {neg})}
    [] phi[1] = "or" -> {IF \E x \in FArgs(phi) : x \in a.fs THEN Add(a, {phi}) ELSE Add(a, {neg})}
    [] IsNotX(phi) ->
         LET sf == phi[2][2] IN
         IF phi[2] \notin a.fs
         THEN IF phi \notin a.fs THEN {Add(a, {phi[2]}), Add(a, {phi, Xf(LNot(sf))})}
                                 ELSE {Add(a, {Xf(LNot(sf))})}
         ELSE {a}
    [] phi[1] = "U" ->
         IF phi[3] \in a.fs THEN {Add(a, {phi})}
         ELSE IF phi[2] \in a.fs
              THEN IF Xf(phi) \in a.fs THEN {Add(a, {phi})}
                   ELSE IF Nt(Xf(phi)) \notin a.fs
                        THEN {Add(a, {phi, Xf(phi)}),
                              Add(a, IF FIXED THEN {Nt(Xf(phi)), neg} ELSE {Nt(Xf(phi))})}
                        ELSE {IF FIXED THEN Add(a, {neg}) ELSE a}
              ELSE {Add(a, {neg})}
    [] OTHER -> {a}
\* the final generic split of the loop body
Generic(b, phi) == LET neg == LNot(phi) IN
   IF phi \notin b.fs /\ neg \notin b.fs THEN {Add(b, {phi}), Add(b, {neg})} ELSE {b}
Skipped(phi) == ~FIXED /\ (phi = Nt(Tr) \/ phi = Fa)
ProcessAtom(a, phi) == IF Skipped(phi) THEN {a} ELSE UNION {Generic(b, phi) : b \in Specific(a, phi)}
Init == /\ K \in KripkesUpTo(MaxN, APs) /\ g \in Family
        /\ todo = Close({g}) /\ atoms = {[s |-> s, fs |-> {}] : s \in 0..(K.n-1)} /\ phase = "build"
Process(phi) == /\ phase = "build" /\ phi \in todo
                /\ \A q \in todo : Key(phi) <= Key(q)          \* any minimal-key formula: the sort's ties
                /\ atoms' = UNION {ProcessAtom(a, phi) : a \in atoms}
                /\ todo' = todo \ {phi}
                /\ phase' = IF todo' = {} THEN "done" ELSE "build"
                /\ UNCHANGED <<K, g>>
Next == \E phi \in todo : Process(phi)
Spec == Init /\ [][Next]_vars
\* ---- tableau and answer, evaluated on the final atoms
Xs == {f \in Closure : f[1] = "X"}
Edge(a, b) == <<a.s, b.s>> \in K.R /\ \A f \in Xs : (f[2] \in b.fs) <=> (f \in a.fs)
RECURSIVE FwdT(_)
FwdT(Xset) == LET X2 == Xset \cup {b \in atoms : \E a \in Xset : Edge(a, b)} IN IF X2 = Xset THEN Xset ELSE FwdT(X2)
RECURSIVE BwdT(_)
BwdT(Xset) == LET X2 == Xset \cup {a \in atoms : \E b \in Xset : Edge(a, b)} IN IF X2 = Xset THEN Xset ELSE BwdT(X2)
SccOf(a) == FwdT({a}) \cap BwdT({a})
NonTrivialSF(C) == /\ (Cardinality(C) > 1 \/ \E a \in C : Edge(a, a))
                   /\ LET fm == UNION {a.fs : a \in C} IN
                      \A f \in Closure : f[1] = "U" => ((f \in fm) <=> (f[3] \in fm))
Answer == LET good == UNION {C \in {SccOf(a) : a \in atoms} : NonTrivialSF(C)} IN
          {a.s : a \in {b \in BwdT(good) : g \in b.fs}}
\* reference: E g by the declarative semantics
AnswerExact == phase = "done" => Answer = ELTL(K, Elim(K, g), {})
\* local consistency of atoms (diagnostic; explains a wrong answer)
Consistent(a) == \A f \in Closure :
     /\ ~(f \in a.fs /\ LNot(f) \in a.fs)
     /\ (f \in a.fs \/ LNot(f) \in a.fs)
     /\ (f = Fa => f \notin a.fs)
     /\ (f[1] = "U" /\ f \in a.fs => (f[3] \in a.fs \/ (f[2] \in a.fs /\ Xf(f) \in a.fs)))
     /\ (f[1] = "U" /\ f \notin a.fs => ~(f[3] \in a.fs) /\ ~(f[2] \in a.fs /\ Xf(f) \in a.fs))
AtomsConsistent == phase = "done" => \A a \in atoms : Consistent(a)
=======================================================================
