CONSTANTS
  KPool <- KPoolC
  FPool <- FPoolC
  BadPool <- BadPoolC
  MaxRes = 2
  Depth = 2
SPECIFICATION Spec
CONSTRAINT Bound
PROPERTY FreshResult
PROPERTY ResultOwned
PROPERTY AnswerStable
PROPERTY OnlyEditsChangeK
CHECK_DEADLOCK FALSE
