CONSTANTS
  MaxN = 2
  Mode = "good"
SPECIFICATION Spec
INVARIANT GoodReductions
CHECK_DEADLOCK FALSE
