CONSTANT N = 3
SPECIFICATION Spec
INVARIANT Exact
INVARIANT Partial
CHECK_DEADLOCK FALSE
