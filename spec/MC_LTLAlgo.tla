---- MODULE MC_LTLAlgo ----
EXTENDS LTLAlgo
\* restricted formulas (image of get_equivalent_restricted_formula: not/or/X/U, no double negation)
Pp == <<"ap", "p">>
B0 == {Pp, Tr, Fa}
UnR(S) == {<<"not", f>> : f \in {x \in S : x[1] # "not"}} \cup {<<"X", f>> : f \in S}
BiR(S) == {<<"or", f, h>> : f \in S, h \in S} \cup {<<"U", f, h>> : f \in S, h \in S}
R1 == B0 \cup UnR(B0) \cup BiR(B0)
R2 == R1 \cup UnR(R1) \cup {<<"U", f, h>> : f \in B0, h \in UnR(B0)} \cup {<<"U", f, h>> : f \in UnR(B0), h \in B0}
         \cup {<<"or", f, h>> : f \in UnR(B0), h \in B0}
R3 == {<<"U", f, h>> : f \in {Pp, Tr}, h \in {<<"U", Pp, <<"not", Pp>>>>, <<"not", <<"U", Tr, Pp>>>>, <<"or", <<"X", Pp>>, <<"not", Pp>>, Fa>>}}
         \cup {<<"not", <<"U", Tr, <<"not", <<"U", Tr, f>>>>>>>> : f \in {Pp, <<"not", Pp>>}}
FamQ == R1 \cup R3
FamT == R2 \cup R3
APsC == {"p"}
====
