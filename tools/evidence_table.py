#!/usr/bin/env python3
"""Prints a markdown table of what the last run of every check covered, from /verif/evidence/*.json."""
import json, os, glob
rows = []
for f in sorted(glob.glob('/verif/evidence/C*.json')):
    e = json.load(open(f))
    c = e['coverage']
    runs = c.get('spec_runs', [])
    mc = [r for r in runs if r.get('mode') != 'simulate']
    sim = [r for r in runs if r.get('mode') == 'simulate']
    rows.append('| %s | %s | %d | %s | %s | %s | %s | %s | %s | %.0f s |' % (
        e['property_id'], e['tier'], e['seed'],
        '; '.join('%s %s' % (r['cfg'].replace('.cfg', ''), r.get('distinct')) for r in mc) or '-',
        sum(r.get('behaviours', 0) for r in sim) or '-',
        c.get('traces_validated_against_impl'), c.get('distinct_nontrivial'),
        ', '.join(sorted(c.get('known_findings_hit', {}) if isinstance(c.get('known_findings_hit'), dict) else c.get('known_findings_hit') or [])) or '-',
        c.get('skipped_timeouts', 0), e['wall_s']))
print('| id | tier | seed | spec-level TLC runs (cfg, distinct states) | TLC-simulated behaviours replayed | events of the real code judged by TLC | distinct non-trivial | known findings hit | skipped (time limit) | wall |')
print('|---|---|---|---|---|---|---|---|---|---|')
print('\n'.join(rows))
