#!/bin/sh
# runs every registered check once on the current /repo; usage: tools/run_all.sh [tier] [seed] [first check number]
T="${1:-quick}"; S="${2:-0}"; FROM="${3:-1}"
cd "$(dirname "$0")/.."
for i in $(seq -w $FROM 19); do
  c=C$i
  /usr/bin/time -f "%e s" ./check $c --tier $T --seed $S > /tmp/runall_$$_${c}_${T}_${S}.log 2>&1; rc=$?
  v=$(grep -c "^VIOLATION" /tmp/runall_$$_${c}_${T}_${S}.log); k=$(grep -c "^KNOWN-FINDING" /tmp/runall_$$_${c}_${T}_${S}.log)
  echo "$c tier=$T seed=$S exit=$rc violations=$v known=$k time=$(tail -1 /tmp/runall_$$_${c}_${T}_${S}.log)"
done
