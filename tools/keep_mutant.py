#!/usr/bin/env python3
"""keep_mutant.py <src dir> <seed id> <property> <caught_by> <needs...>  - store a confirmed seeded change"""
import sys, os, json, shutil
src, sid, prop, caught = sys.argv[1:5]
needs = ' '.join(sys.argv[5:])
d = os.path.join('/verif/seeded', sid)
os.makedirs(d, exist_ok=True)
for f in ('patch.diff', 'demo.py', 'notes.txt'):
    if os.path.exists(os.path.join(src, f)):
        shutil.copy(os.path.join(src, f), os.path.join(d, f))
meta = {'id': sid, 'breaks_property': prop, 'needs_to_manifest': needs,
        'origin': 'independent sub-agent given only the property text and a scratch worktree',
        'confirmed': {'existing_suite_with_patch': '65 passed', 'demo_clean_tree_exit': 0, 'demo_patched_tree_exit': 1,
                      'ran': 'tools/try_mutant.sh %s %s' % (d, prop)},
        'caught_by': caught}
json.dump(meta, open(os.path.join(d, 'meta.json'), 'w'), indent=1)
print('kept', d)
