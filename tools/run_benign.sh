#!/bin/sh
# Applies every property-PRESERVING change in /verif/benign in turn to a scratch worktree of /repo's HEAD and runs the
# check of the property it preserves (plus any further checks recorded in its first run): every exit must be 0.
# usage: tools/run_benign.sh [tier] [id-prefix]
T="${1:-quick}"; PFX="${2:-}"
W=/var/tmp/pymc_benign_wt_$$
git -C /repo worktree add --detach "$W" HEAD -q || exit 2
trap 'git -C /repo worktree remove --force "$W"' EXIT INT TERM
for d in /verif/benign/${PFX}*/; do
  id=$(basename "$d")
  checks=$(python3 -c "import json;m=json.load(open('$d/meta.json'));print(' '.join(sorted({m['preserves_property']}|{r['check'] for r in m['first_run']})))")
  cd "$W"
  if ! git apply --check "$d/patch.diff" 2>/dev/null; then echo "$id: PATCH DOES NOT APPLY to current HEAD"; continue; fi
  git apply "$d/patch.diff"
  res=""
  for c in $checks; do
    cd /verif && PYMC_REPO="$W" PYMC_VERIF_NOEVIDENCE=1 ./check "$c" --tier "$T" > /tmp/benign_$id.$c.log 2>&1; rc=$?
    res="$res $c:exit=$rc,violations=$(grep -c '^VIOLATION' /tmp/benign_$id.$c.log)"
  done
  cd "$W" && git checkout -- . && git clean -fdq
  echo "$id preserves=$(echo $id | cut -c1-3) ->$res"
done
