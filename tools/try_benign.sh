#!/bin/sh
# usage: try_benign.sh <dir with patch.diff demo.py> <Cnn> [more checks...]   - a property-PRESERVING change must not be flagged
# Works on a SCRATCH worktree of /repo's HEAD (PYMC_REPO), never on /repo itself.
D="$1"; shift
W=/var/tmp/pymc_ben_wt_$$
git -C /repo worktree add --detach "$W" HEAD -q || exit 2
trap 'git -C /repo worktree remove --force "$W"' EXIT INT TERM
cd "$W"
git apply "$D/patch.diff" || { echo "patch does not apply"; exit 2; }
echo "== changed tree: tests"; PYTHONDONTWRITEBYTECODE=1 /venv/bin/python -m pytest -q -p no:cacheprovider pyModelChecking/tests 2>&1 | tail -1
echo "== changed tree: demo"; PYTHONDONTWRITEBYTECODE=1 timeout 600 /venv/bin/python "$D/demo.py" > /tmp/tb_demo_$$.txt 2>&1; echo "demo exit (changed) = $?"
for C in "$@"; do
  cd /verif && PYMC_REPO="$W" PYMC_VERIF_NOEVIDENCE=1 ./check "$C" --tier quick > /tmp/tb_check_$$.txt 2>&1; rc=$?
  echo "check $C exit = $rc violations = $(grep -c '^VIOLATION' /tmp/tb_check_$$.txt)"
  grep -A1 "^VIOLATION" /tmp/tb_check_$$.txt | grep "^  " | head -2 | cut -c1-400
  grep "MACHINERY" /tmp/tb_check_$$.txt | head -2 | cut -c1-300
  grep "drift" /tmp/tb_check_$$.txt | head -2 | cut -c1-200
done
rm -f /tmp/tb_check_$$.txt /tmp/tb_demo_$$.txt
