#!/bin/sh
# usage: try_mutant.sh <dir with patch.diff demo.py> <Cnn> [tier]   - confirms a seeded change and runs a check against it
# Works on a SCRATCH worktree of /repo's HEAD (PYMC_REPO), never on /repo itself.
D="$1"; C="$2"; T="${3:-quick}"
W=/var/tmp/pymc_try_wt_$$
git -C /repo worktree add --detach "$W" HEAD -q || exit 2
trap 'git -C /repo worktree remove --force "$W"' EXIT INT TERM
cd "$W"
echo "== clean tree: demo"; PYTHONDONTWRITEBYTECODE=1 /venv/bin/python "$D/demo.py" > /tmp/tm_demo0_$$.txt 2>&1; echo "demo exit (clean) = $?"
git apply "$D/patch.diff" || { echo "patch does not apply"; exit 2; }
echo "== mutated tree: tests"; PYTHONDONTWRITEBYTECODE=1 /venv/bin/python -m pytest -q -p no:cacheprovider pyModelChecking/tests 2>&1 | tail -1
echo "== mutated tree: demo"; PYTHONDONTWRITEBYTECODE=1 /venv/bin/python "$D/demo.py" > /tmp/tm_demo1_$$.txt 2>&1; echo "demo exit (mutated) = $?"; tail -3 /tmp/tm_demo1_$$.txt
echo "== mutated tree: check $C $T"
cd /verif && PYMC_REPO="$W" PYMC_VERIF_NOEVIDENCE=1 ./check "$C" --tier "$T" > /tmp/tm_check_$$.txt 2>&1; echo "check exit = $?"
grep -c "^VIOLATION" /tmp/tm_check_$$.txt | sed 's/^/VIOLATION lines: /'
grep -A1 "^VIOLATION" /tmp/tm_check_$$.txt | grep "^  " | head -2 | cut -c1-300
grep "MACHINERY" /tmp/tm_check_$$.txt | head -3
rm -f /tmp/tm_check_$$.txt /tmp/tm_demo0_$$.txt /tmp/tm_demo1_$$.txt
