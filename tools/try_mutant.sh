#!/bin/sh
# usage: try_mutant.sh <dir with patch.diff demo.py> <Cnn> [tier]   - confirms a seeded change and runs a check against it
# Applies the patch to /repo, runs the repo tests + the demo + the check, then ALWAYS reverts /repo.
D="$1"; C="$2"; T="${3:-quick}"
cd /repo || exit 2
git diff --quiet || { echo "/repo has uncommitted changes"; exit 2; }
echo "== clean tree: demo"; PYTHONDONTWRITEBYTECODE=1 /venv/bin/python "$D/demo.py" > /tmp/tm_demo0.txt 2>&1; echo "demo exit (clean) = $?"
git apply "$D/patch.diff" || { echo "patch does not apply"; git checkout -- .; exit 2; }
trap 'cd /repo && git checkout -- . ' EXIT INT TERM
echo "== mutated tree: tests"; PYTHONDONTWRITEBYTECODE=1 /venv/bin/python -m pytest -q -p no:cacheprovider 2>&1 | tail -1
echo "== mutated tree: demo"; PYTHONDONTWRITEBYTECODE=1 /venv/bin/python "$D/demo.py" > /tmp/tm_demo1.txt 2>&1; echo "demo exit (mutated) = $?"; tail -3 /tmp/tm_demo1.txt
echo "== mutated tree: check $C $T"
cd /verif && ./check "$C" --tier "$T" > /tmp/tm_check.txt 2>&1; echo "check exit = $?"
grep -c "^VIOLATION" /tmp/tm_check.txt | sed 's/^/VIOLATION lines: /'
grep -A1 "^VIOLATION" /tmp/tm_check.txt | head -4 | cut -c1-300
grep "MACHINERY" /tmp/tm_check.txt | head -3
