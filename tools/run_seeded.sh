#!/bin/sh
# Applies every seeded change in /verif/seeded to /repo in turn, runs the quick check of the property
# it breaks (and of the check recorded as catching it, if different), and reverts.  Prints one line each.
# usage: tools/run_seeded.sh [tier]        (never run concurrently with other checks: it edits /repo)
T="${1:-quick}"
cd /repo || exit 2
git diff --quiet || { echo "/repo has uncommitted changes"; exit 2; }
for d in /verif/seeded/*/; do
  id=$(basename "$d")
  prop=$(python3 -c "import json;print(json.load(open('$d/meta.json'))['breaks_property'])")
  by=$(python3 -c "import json,re;m=json.load(open('$d/meta.json'))['caught_by'];print(' '.join(sorted(set(re.findall(r'C\d\d', m)))))")
  if ! git apply --check "$d/patch.diff" 2>/dev/null; then echo "$id: PATCH DOES NOT APPLY to current HEAD"; continue; fi
  git apply "$d/patch.diff"
  res=""
  for c in $by; do
    cd /verif && ./check "$c" --tier "$T" > /tmp/seeded_$id.$c.log 2>&1; rc=$?
    n=$(grep -c "^VIOLATION" /tmp/seeded_$id.$c.log)
    res="$res $c:exit=$rc,violations=$n"
    cd /repo
  done
  git checkout -- .
  echo "$id breaks=$prop ->$res"
done
