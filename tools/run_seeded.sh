#!/bin/sh
# Applies every seeded change in /verif/seeded in turn to a SCRATCH worktree of /repo's HEAD (so /repo itself
# is never touched), runs the recorded check(s) against that tree (PYMC_REPO) and reverts.  One line each.
# usage: tools/run_seeded.sh [tier] [id-prefix]
T="${1:-quick}"; PFX="${2:-}"
W=/var/tmp/pymc_seed_wt_$$
git -C /repo worktree add --detach "$W" HEAD -q || exit 2
trap 'git -C /repo worktree remove --force "$W"' EXIT INT TERM
for d in /verif/seeded/${PFX}*/; do
  id=$(basename "$d")
  prop=$(python3 -c "import json;print(json.load(open('$d/meta.json'))['breaks_property'])")
  by=$(python3 -c "import json,re;m=json.load(open('$d/meta.json'))['caught_by'];print(' '.join(sorted(set(re.findall(r'C[0-9][0-9]', m)))))")
  if grep -q '"status": "neutralised' "$d/meta.json"; then echo "$id: neutralised by a later fix (see meta.json), skipped"; continue; fi
  cd "$W"
  if ! git apply --check "$d/patch.diff" 2>/dev/null; then echo "$id: PATCH DOES NOT APPLY to current HEAD"; continue; fi
  git apply "$d/patch.diff"
  res=""
  for c in $by; do
    cd /verif && PYMC_REPO="$W" PYMC_VERIF_NOEVIDENCE=1 ./check "$c" --tier "$T" > /tmp/seeded_$id.$c.log 2>&1; rc=$?
    n=$(grep -c "^VIOLATION" /tmp/seeded_$id.$c.log)
    res="$res $c:exit=$rc,violations=$n"
  done
  cd "$W" && git checkout -- .
  echo "$id breaks=$prop ->$res"
done
