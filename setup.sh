#!/bin/sh
# Offline setup: nothing is compiled.  Syntax-check every specification with SANY and make
# sure the repository imports from /repo with the interpreter the checks use.
set -e
cd "$(dirname "$0")"
for f in spec/*.tla; do
  ( cd spec && java -cp /opt/veriftools/tla/tla2tools.jar:/opt/veriftools/tla/CommunityModules-deps.jar tla2sany.SANY "$(basename "$f")" > /tmp/sany.$$ 2>&1 ) || { cat /tmp/sany.$$; rm -f /tmp/sany.$$; echo "SANY failed on $f"; exit 1; }
  if grep -q "Semantic errors\|Parse Error\|Fatal errors" /tmp/sany.$$; then cat /tmp/sany.$$; rm -f /tmp/sany.$$; echo "SANY errors in $f"; exit 1; fi
done
rm -f /tmp/sany.$$
PYTHONDONTWRITEBYTECODE=1 /venv/bin/python -c "import sys; sys.path.insert(0,'harness'); import pymc; print('pyModelChecking from', pymc.pyModelChecking.__file__)"
mkdir -p evidence replays
echo setup ok
